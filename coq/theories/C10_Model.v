(* C10_Model.v — which cells a write touches.
   Modelled code (go-gorm/gorm, /repo):
     schema/field.go      ParseField: permission tags "-", "->", "<-" applied in this order
     statement.go         Statement.SelectAndOmitColumns (processColumn: "*", field / column spelling,
                          "tbl.col", "tbl.*", unknown names; the permission pass; restricted)
     callbacks/update.go  ConvertToAssignments (struct payload, map payload incl. the `assigned` set of
                          commit cef6815, Save, SkipHooks)
     callbacks/create.go  ConvertToCreateValues (struct / slice; FieldsWithDefaultDBValue = the key;
                          OnConflict.UpdateAll expansion), callbacks/helper.go ConvertMapToValuesForCreate
     finisher_api.go      Update, Updates, UpdateColumn(s), Save (update, else upsert when no Select)
   Values are abstracted to "zero or not"; a written cell is tagged with where its value comes from
   (the payload, NowFunc(), or something else such as a column DEFAULT).  No proofs here. *)
From Verif Require Import Base.
Open Scope Z_scope.

(* ---- fields and permission tags ---------------------------------------------------------- *)
Inductive dash := DDash | DAll | DMigration.                          (* gorm:"-" "-:all" "-:migration" *)
Inductive wperm := WAll | WCreate | WUpdate | WFalse | WCreateUpdate.   (* "<-" "<-:create" ... *)
Inductive auto := ANone | ACreate | AUpdate.                          (* autoCreateTime / autoUpdateTime *)

Record field := mk_field {
  f_name : string;            (* Go field name *)
  f_col0 : string;            (* column the naming strategy / column tag gives *)
  f_coltag : bool;            (* an explicit `column:` tag is present *)
  f_dbdef : bool;             (* `default:(expr)`: a database-side default gorm does not parse
                                 (HasDefaultValue, DefaultValueInterface = nil) *)
  f_dash : option dash;
  f_ro : option bool;         (* Some true = "->", Some false = "->:false" *)
  f_rw : option wperm;
  f_pk : bool;                (* primary key: auto-increment, HasDefaultValue *)
  f_auto : auto
}.
Definition schema := list field.

Definition w_create (w : wperm) := match w with WAll | WCreate | WCreateUpdate => true | _ => false end.
Definition w_update (w : wperm) := match w with WAll | WUpdate | WCreateUpdate => true | _ => false end.

(* ParseField, "setup permission": (Creatable, Updatable, Readable) *)
Definition perm (f : field) : bool * bool * bool :=
  let p1 := match f_dash f with
            | Some DDash | Some DAll => (false, false, false)
            | _ => (true, true, true)
            end in
  let p2 := match f_ro f with Some b => (false, false, b) | None => p1 end in
  match f_rw f with
  | Some w => (w_create w, w_update w, snd p2)
  | None => p2
  end.
Definition creatable f := fst (fst (perm f)).
Definition updatable f := snd (fst (perm f)).
Definition readable f := snd (perm f).
(* "-" and "-:all" clear DataType: the field gets no DBName from the naming strategy; an explicit
   `column:` tag still names one (the column then carries no permission at all) *)
Definition has_col (f : field) : bool :=
  f_coltag f || match f_dash f with Some DDash | Some DAll => false | _ => true end.
Definition f_db (f : field) : string := if has_col f then f_col0 f else "".

Definition col_fields (s : schema) : list field := filter has_col s.
Definition dbnames (s : schema) : list string := map f_db (col_fields s).

(* Schema.LookUpField: by column name, then by field name *)
Definition lookup_field (s : schema) (n : string) : option field :=
  match find (fun f => String.eqb (f_db f) n) (col_fields s) with
  | Some f => Some f
  | None => find (fun f => String.eqb (f_name f) n) s
  end.

(* ---- Statement.SelectAndOmitColumns -------------------------------------------------------- *)
Inductive sitem :=
| SStar                               (* "*" *)
| SName (s : string)                  (* a bare name, any spelling *)
| STab (tbl col : string)             (* "tbl.col" *)
| STabStar (tbl : string).            (* "tbl.*" *)

Definition sel_map := list (string * bool).        (* newest entry first *)
Fixpoint sel_get (m : sel_map) (k : string) : option bool :=
  match m with
  | [] => None
  | (k', v) :: r => if String.eqb k' k then Some v else sel_get r k
  end.
Definition set_all (names : list string) (v : bool) (m : sel_map) : sel_map :=
  fold_left (fun m d => (d, v) :: m) names m.

Definition process (s : schema) (table : string) (result : bool) (st : sel_map * bool) (it : sitem)
  : sel_map * bool :=
  let '(m, nr) := st in
  match it with
  | SStar => (set_all (dbnames s) result m, result)
  | SName n =>
      match lookup_field s n with
      | Some f => if has_col f then ((f_db f, result) :: m, nr) else ((n, result) :: m, nr)
      | None => ((n, result) :: m, nr)
      end
  | STab tbl col =>
      if String.eqb tbl table then ((col, result) :: m, nr)
      else (((tbl ++ "." ++ col)%string, result) :: m, nr)
  | STabStar tbl =>
      if String.eqb tbl table then (set_all (dbnames s) result m, nr)
      else (((tbl ++ ".*")%string, result) :: m, nr)
  end.

Definition perm_pass (s : schema) (req_create req_update : bool) (m : sel_map) : sel_map :=
  fold_left (fun m f =>
               let name := if has_col f then f_db f else f_name f in
               if req_create && negb (creatable f) then (name, false) :: m
               else if req_update && negb (updatable f) then (name, false) :: m
               else m) s m.

Definition select_and_omit (s : schema) (table : string) (selects omits : list sitem)
           (req_create req_update : bool) : sel_map * bool :=
  let st1 := fold_left (process s table true) selects ([], false) in
  let st2 := fold_left (process s table false) omits st1 in
  (perm_pass s req_create req_update (fst st2),
   negb (snd st2) && match selects with [] => false | _ => true end).

(* (ok && v) || (!ok && !restricted) *)
Definition allowed (sm : sel_map * bool) (k : string) : bool :=
  match sel_get (fst sm) k with Some v => v | None => negb (snd sm) end.

(* ---- payloads and cells ------------------------------------------------------------------------ *)
(* a payload row: the key (0 = unset) and, per entry, the name as written (struct: Go field name of
   every non-key field; map: the keys in sorted order) with "is the value zero?" *)
Definition payload := (Z * list (string * bool))%type.
Definition p_zero (p : payload) (f : field) : bool :=
  if f_pk f then fst p =? 0
  else match find (fun e => String.eqb (fst e) (f_name f)) (snd p) with
       | Some e => snd e
       | None => true
       end.

Inductive src := KNow | KPay | KOther.
Record cell := mk_cell { c_row : Z; c_col : string; c_src : src }.
Definition assignment := (string * src)%type.

(* columns in schema order, first assignment of each, then the assignments to columns the schema does not
   know (raw map keys of a statement whose model is a narrower view of the table, or that has no model at
   all: Table("t").Updates(map)), in the order they were made (the harness sorts what it observes the same way) *)
Definition canon (s : schema) (set : list assignment) : list assignment :=
  flat_map (fun f => match find (fun a => String.eqb (fst a) (f_db f)) set with
                     | Some a => [a]
                     | None => []
                     end) (col_fields s)
  ++ filter (fun a => negb (existsb (String.eqb (fst a)) (dbnames s))) set.

(* ---- ConvertToAssignments ------------------------------------------------------------------------ *)
(* struct payload; [is_save] = Dest is the Model itself (the key goes to WHERE) *)
Definition assign_struct (s : schema) (sm : sel_map * bool) (skip_hooks is_save : bool) (p : payload)
  : list assignment :=
  flat_map (fun f =>
    if f_pk f && is_save then []
    else
      let ok := sel_get (fst sm) (f_db f) in
      let hooked := negb skip_hooks && match f_auto f with AUpdate => true | _ => false end in
      if match ok with Some v => v | None => negb (snd sm) || hooked end
      then
        let is_zero := if hooked then false else p_zero p f in
        if (match ok with Some _ => true | None => false end || negb is_zero) && updatable f
        then [(f_db f, if hooked then KNow else KPay)] else []
      else []) (col_fields s).

(* map payload *)
Definition map_has (p : payload) (n : string) : bool := existsb (fun e => String.eqb (fst e) n) (snd p).
(* the assignments the key loop produces, in sorted key order *)
Definition map_keys_part (s : schema) (sm : sel_map * bool) (p : payload) : list assignment :=
  flat_map (fun e =>
    match lookup_field s (fst e) with
    | Some f => if has_col f then (if allowed sm (f_db f) then [(f_db f, KPay)] else []) else []
    | None => if allowed sm (fst e) then [(fst e, KPay)] else []
    end) (snd p).
Definition was_assigned (set : list assignment) (c : string) : bool :=
  existsb (fun a => String.eqb (fst a) c) set.

(* the refresh loop: every tracked update-time column that got no assignment from the key loop
   (`assigned[field.DBName]`, /repo commit cef6815) and is not denied / omitted *)
Definition assign_map (s : schema) (sm : sel_map * bool) (skip_hooks : bool) (p : payload)
  : list assignment :=
  let keys := map_keys_part s sm p in
  keys
  ++ (if skip_hooks then [] else
      flat_map (fun f =>
        match f_auto f with
        | AUpdate =>
            if negb (was_assigned keys (f_db f))
            then match sel_get (fst sm) (f_db f) with
                 | Some false => []
                 | _ => [(f_db f, KNow)]
                 end
            else []
        | _ => []
        end) (col_fields s)).

(* the refresh loop BEFORE commit cef6815 (kept only as a record: Props_C10.c10_autoupdate_map_old_refuted):
   it tested whether the map HAS the key, not whether the key was assigned *)
Definition assign_map_old (s : schema) (sm : sel_map * bool) (skip_hooks : bool) (p : payload)
  : list assignment :=
  map_keys_part s sm p
  ++ (if skip_hooks then [] else
      flat_map (fun f =>
        match f_auto f with
        | AUpdate =>
            if negb (map_has p (f_name f)) && negb (map_has p (f_db f))
            then match sel_get (fst sm) (f_db f) with
                 | Some false => []
                 | _ => [(f_db f, KNow)]
                 end
            else []
        | _ => []
        end) (col_fields s)).

(* ---- ConvertToCreateValues -------------------------------------------------------------------------- *)
Definition is_auto (f : field) : bool := match f_auto f with ANone => false | _ => true end.

(* INSERT column list for struct / slice payloads; [any_key] = some row carries a non-zero key *)
(* fields with a database-side default value (Schema.FieldsWithDefaultDBValue): the key and `default:(expr)` *)
Definition db_default (f : field) : bool := f_pk f || f_dbdef f.
Definition any_nonzero (ps : list payload) (f : field) : bool := existsb (fun p => negb (p_zero p f)) ps.
(* INSERT column list for struct / slice payloads [ps]: the ordinary columns, then every field with a
   database-side default that is allowed and non-zero in some element *)
Definition create_fields (s : schema) (sm : sel_map * bool) (ps : list payload) : list field :=
  filter (fun f =>
    if db_default f then false
    else match sel_get (fst sm) (f_db f) with
         | Some v => v
         | None => negb (snd sm) || is_auto f
         end) (col_fields s)
  ++ filter (fun f => db_default f && allowed sm (f_db f) && any_nonzero ps f) (col_fields s).

(* an element without a value for an inserted `default:(expr)` column gets the dialect's placeholder:
   SQLite has none ("DEFAULT" inside VALUES is a syntax error) *)
Definition default_placeholder_error (fs : list field) (ps : list payload) : bool :=
  existsb (fun f => f_dbdef f && negb (f_pk f) && existsb (fun p => p_zero p f) ps) fs.

(* value of one inserted column for one row; [forced_now] = fields Save's failed UPDATE already set *)
Definition create_src (forced_now : list string) (p : payload) (f : field) : src :=
  if existsb (String.eqb (f_db f)) forced_now then KNow
  else if p_zero p f && is_auto f then KNow else KPay.

Definition create_map_cols (s : schema) (sm : sel_map * bool) (p : payload) : list string :=
  flat_map (fun e =>
    let k := match lookup_field s (fst e) with Some f => f_db f | None => fst e end in
    if allowed sm k then [k] else []) (snd p).

(* OnConflict{UpdateAll}: DoUpdates derived from the inserted columns *)
Definition update_all_set (s : schema) (sm2 : sel_map * bool) (inserted : list field) (forced_now : list string)
           (p : payload) : list assignment :=
  flat_map (fun f =>
    if allowed sm2 (f_db f) && negb (db_default f) && negb (match f_auto f with ACreate => true | _ => false end)
    then [(f_db f, match f_auto f with AUpdate => KNow | _ => create_src forced_now p f end)]
    else []) inserted.

(* ---- operations ---------------------------------------------------------------------------------------- *)
Inductive op :=
| OCreate | OCreateBatch | OCreateMap
| OUpsertAll | OUpsertNothing | OUpsertCols (cols : list string)
| OSave
| OUpdatesStruct | OUpdatesMap            (* Updates(struct) ; Update / Updates(map) *)
| OUpdateColumnsStruct | OUpdateColumnsMap
| OCreateMaps                   (* Model(&T{}).Create(&[]map[string]interface{}{...}): ConvertSliceOfMapToValuesForCreate *)
| OFocAssign                    (* [Model(&T{}).]Where(rows).Assign(map).FirstOrCreate(&dest), a row is found *)
| OFoiAssign                    (* the same chain with FirstOrInit *)
| OSaveSlice.                   (* Save(&[]T{...}): Create + OnConflict{UpdateAll} + gorm:update_track_time *)

Definition key_name (s : schema) : string :=
  match find f_pk (col_fields s) with Some f => f_db f | None => "id" end.

Definition mem_z (x : Z) (l : list Z) : bool := existsb (Z.eqb x) l.

(* rows an UPDATE reaches: chain conditions (row IN ...) and the model value's key *)
(* a stored row = (row identity, values of its primary-key members in field order);
   the model value's key = one entry per primary-key member, 0 = that member is zero (no condition).
   ConvertToAssignments adds an Eq for EVERY non-zero primary field of the model value. *)
Definition srow := (Z * list Z)%type.
Definition struct_match (mk ks : list Z) : bool :=
  forallb (fun pr => (fst pr =? 0) || (snd pr =? fst pr)) (combine mk ks).
(* the model value: one struct (its key members) or a slice of single-key structs (their keys, 0 = none).
   Slice: the scan over the elements stops at the first element that has a key (/repo commit 049875c);
   if there is one, WHERE pk IN (the non-zero keys) is added. *)
Inductive mkey := MStruct (members : list Z) | MSlice (keys : list Z).
Definition key_match (mk : mkey) (ks : list Z) : bool :=
  match mk with
  | MStruct m => struct_match m ks
  | MSlice l => negb (existsb (fun k => negb (k =? 0)) l)
                || existsb (fun k => negb (k =? 0) && (hd 0 ks =? k)) l
  end.
(* the slice branch BEFORE commit 049875c (kept only as a record, Props_C10.c10_slice_model_old_refuted):
   the scan left isZero describing the LAST element *)
Definition slice_match_old (l ks : list Z) : bool :=
  (last l 0 =? 0) || existsb (fun k => negb (k =? 0) && (hd 0 ks =? k)) l.
Definition targeted (stored : list srow) (model_key : mkey) (where_ids : option (list Z)) : list Z :=
  map fst (filter (fun r => key_match model_key (snd r)
                            && match where_ids with None => true | Some l => mem_z (fst r) l end) stored).

Definition cells_for (rows : list Z) (set : list assignment) : list cell :=
  flat_map (fun r => map (fun a => mk_cell r (fst a) (snd a)) set) rows.

Record outcome := mk_outcome { out_cells : list cell; out_err : bool }.

(* checkMissingWhereConditions: an UPDATE with neither a chain condition nor a key in the model value
   stops with ErrMissingWhereClause *)
Definition no_condition (mk : mkey) (where_ids : option (list Z)) : bool :=
  match where_ids with
  | Some _ => false
  | None => match mk with
            | MStruct m => forallb (Z.eqb 0) m
            | MSlice l => forallb (Z.eqb 0) l
            end
  end.

(* UPDATE ... SET set WHERE rows.  Writing the key of two rows to the same value violates UNIQUE. *)
Definition do_update (s : schema) (rows : list Z) (set : list assignment) : outcome :=
  let set' := canon s set in
  if existsb (fun a => String.eqb (fst a) (key_name s)) set' && (1 <? Z.of_nat (length rows))
  then mk_outcome [] true
  else mk_outcome (cells_for rows set') false.

(* the Update callback: an empty SET list ends the callback before anything else; otherwise a statement
   without any condition is refused (ErrMissingWhereClause) *)
Definition guarded_update (s : schema) (mk : mkey) (where_ids : option (list Z)) (rows : list Z)
           (set : list assignment) : outcome :=
  match set with
  | [] => mk_outcome [] false
  | _ => if no_condition mk where_ids then mk_outcome [] true else do_update s rows set
  end.

(* new rows are numbered 1001, 1002, ... in key order *)
Fixpoint new_rows (s : schema) (forced : list string) (fs : list field) (ps : list payload) (n : Z) : list cell :=
  match ps with
  | [] => []
  | p :: r =>
      map (fun f => mk_cell n (f_db f) (create_src forced p f)) (filter (fun f => negb (f_pk f)) fs)
      ++ new_rows s forced fs r (n + 1)
  end.

Definition sort_fields (s : schema) (fs : list field) : list field :=
  filter (fun f => existsb (fun g => String.eqb (f_db g) (f_db f)) fs) (col_fields s).


Definition upsert (s : schema) (table : string) (selects omits : list sitem) (stored : list Z)
           (forced : list string) (o : op) (p : payload) : outcome :=
  let sm := select_and_omit s table selects omits true false in
  let fs := create_fields s sm [p] in
  let key_in := existsb f_pk fs in
  match fs with
  | [] => mk_outcome [] true   (* INSERT ... DEFAULT VALUES ON CONFLICT ... : SQLite rejects the statement *)
  | _ =>
  if key_in && mem_z (fst p) stored then
    let set :=
      match o with
      | OUpsertNothing => []
      | OUpsertCols cols =>
          map (fun c => (c, match find (fun f => String.eqb (f_db f) c) fs with
                            | Some f => create_src forced p f
                            | None => KOther
                            end)) cols
      | _ => update_all_set s (select_and_omit s table selects omits true true) fs forced p
      end in
    mk_outcome (cells_for [fst p] (canon s set)) false
  else mk_outcome (new_rows s forced (sort_fields s fs) [p] 1001) false
  end.

Definition run_op (s : schema) (table : string) (o : op) (selects omits : list sitem)
           (ps : list payload) (stored : list srow) (model_key : mkey) (where_ids : option (list Z)) : outcome :=
  let ids := map fst stored in       (* single-key types: row identity = stored key *)
  let p := match ps with p :: _ => p | [] => (0, []) end in
  let rows := targeted stored model_key where_ids in
  match o with
  | OCreate | OCreateBatch =>
      match ps with [] => mk_outcome [] true | _ =>     (* ErrEmptySlice *)
      let sm := select_and_omit s table selects omits true false in
      let fs := create_fields s sm ps in
      if default_placeholder_error fs ps then mk_outcome [] true
      else if existsb f_pk fs && existsb (fun p : payload => mem_z (fst p) ids) ps
      then mk_outcome [] true                     (* UNIQUE constraint: the whole (batched) create is rolled back *)
      else mk_outcome (new_rows s [] (sort_fields s fs) ps 1001) false
      end
  | OCreateMap =>
      let sm := select_and_omit s table selects omits true false in
      let cols := create_map_cols s sm p in
      mk_outcome (map (fun a => mk_cell 1001 (fst a) (snd a))
                      (filter (fun a => negb (String.eqb (fst a) (key_name s)))
                              (canon s (map (fun c => (c, KPay)) cols)))) false
  | OCreateMaps =>
      match ps with [] => mk_outcome [] true | _ =>     (* ErrEmptySlice *)
      (* every map of the batch names the same fields (domain), in column or field spelling: the
         column list is the union of the keys resolved by LookUpField and filtered by the select map *)
      let sm := select_and_omit s table selects omits true false in
      let set := filter (fun a => negb (String.eqb (fst a) (key_name s)))
                        (canon s (map (fun c => (c, KPay)) (create_map_cols s sm p))) in
      mk_outcome (List.concat (map (fun n => map (fun a => mk_cell n (fst a) (snd a)) set)
                                   (map (fun i => 1001 + Z.of_nat i) (seq 0 (length ps))))) false
      end
  | OFocAssign =>
      (* FirstOrCreate, found + Assign: tx.Model(dest).Updates(assigns) — a hook-running map update
         pinned to the key of the FOUND record (the first matching row in key order), whatever Model
         the caller put on the chain *)
      do_update s (firstn 1 rows) (assign_map s (select_and_omit s table selects omits false true) false p)
  | OFoiAssign => mk_outcome [] false          (* FirstOrInit never writes *)
  | OSaveSlice =>
      (* one INSERT ... ON CONFLICT (key) DO UPDATE SET <UpdateAll>; tracked update times are NowFunc() in
         every element (update_track_time).  Cells of stored rows first (in key order), then the new rows *)
      match ps with [] => mk_outcome [] true | _ =>
      let sm := select_and_omit s table selects omits true false in
      let fs := create_fields s sm ps in
      let forced := map f_db (filter (fun f => match f_auto f with AUpdate => true | _ => false end) (col_fields s)) in
      match fs with [] => mk_outcome [] true | _ =>
      if default_placeholder_error fs ps then mk_outcome [] true else
      let key_in := existsb f_pk fs in
      let collides := fun p : payload => key_in && mem_z (fst p) ids in
      let set_of := fun p => canon s (update_all_set s (select_and_omit s table selects omits true true) fs forced p) in
      mk_outcome
        (flat_map (fun id => match find (fun p : payload => (fst p =? id) && collides p) ps with
                             | Some p => cells_for [id] (set_of p)
                             | None => []
                             end) ids
         ++ new_rows s forced (sort_fields s fs) (filter (fun p => negb (collides p)) ps) 1001) false
      end end
  | OUpsertAll | OUpsertNothing | OUpsertCols _ => upsert s table selects omits ids [] o p
  | OSave =>
      if fst p =? 0 then
        let sm := select_and_omit s table selects omits true false in
        mk_outcome (new_rows s [] (sort_fields s (create_fields s sm [p])) [p] 1001) false
      else
        let selects' := match selects with [] => [SStar] | _ => selects end in
        let sm := select_and_omit s table selects' omits false true in
        let set := assign_struct s sm false true p in
        if mem_z (fst p) ids then do_update s [fst p] set
        else match selects with
             | [] => (* 0 rows: Create with OnConflict{UpdateAll}; the struct already carries NowFunc()
                        in the tracked fields the UPDATE assigned *)
                 let forced := map fst (filter (fun a => match snd a with KNow => true | _ => false end) set) in
                 upsert s table selects' omits ids forced OUpsertAll p
             | _ => mk_outcome [] false
             end
  | OUpdatesStruct => guarded_update s model_key where_ids rows
      (assign_struct s (select_and_omit s table selects omits false true) false false p)
  | OUpdateColumnsStruct => guarded_update s model_key where_ids rows
      (assign_struct s (select_and_omit s table selects omits false true) true false p)
  | OUpdatesMap => guarded_update s model_key where_ids rows
      (assign_map s (select_and_omit s table selects omits false true) false p)
  | OUpdateColumnsMap => guarded_update s model_key where_ids rows
      (assign_map s (select_and_omit s table selects omits false true) true p)
  end.

(* ---- the value is a struct of ANOTHER type than the Model (ConvertToAssignments: isDiffSchema) ------------
   `Model(&A{..}).Updates(B{..})` / UpdateColumns(&B{..}): updatingSchema = the schema of B.  The loop runs
   over the MODEL's DBNames; each is looked up in B's schema (LookUpField: by column, then by field name); a
   column B does not have is skipped; permission comes from the select map (computed from the model's schema:
   Select / Omit / the model's tags) AND from B's own field (`field.Updatable`); zero-ness, the tracked
   update-time setting and the key flag are B's.  Dest != Model, so a key field is an ordinary field. *)
Definition assign_patch (s us : schema) (sm : sel_map * bool) (skip_hooks : bool) (p : payload)
  : list assignment :=
  flat_map (fun f =>
    match lookup_field us (f_db f) with
    | None => []
    | Some g => assign_struct [g] sm skip_hooks false p
    end) (col_fields s).

(* ---- a handle that is used for several updates in a row (callbacks/update.go Update) ------------------------
   The callback derives the SET clause from the value only when the statement carries none
   (`if _, ok := Clauses["SET"]; !ok`), and removes the clause it derived when it returns
   (`defer delete(db.Statement.Clauses, "SET")`); an empty derived list ends the callback at once.
   [given] = the SET clause found on the statement; result = (the list that is sent, the clause left behind). *)
Definition update_callback (given : option (list assignment)) (derived : list assignment)
  : list assignment * option (list assignment) :=
  match given with
  | Some set => (set, Some set)
  | None => (derived, None)
  end.
Fixpoint handle_set (given : option (list assignment)) (earlier : list (list assignment)) : option (list assignment) :=
  match earlier with
  | [] => given
  | d :: r => handle_set (snd (update_callback given d)) r
  end.

(* one case of the checker: [vs] = the schema of the value's own type when it is not the model's; [earlier] =
   the map updates (skip_hooks, payload) made before through the same handle *)
Definition is_struct_update (o : op) : option bool :=      (* Some skip_hooks *)
  match o with OUpdatesStruct => Some false | OUpdateColumnsStruct => Some true | _ => None end.
Definition run_case (s : schema) (table : string) (o : op) (selects omits : list sitem)
           (ps : list payload) (stored : list srow) (model_key : mkey) (where_ids : option (list Z))
           (vs : option schema) (earlier : list (bool * payload)) : outcome :=
  let sm := select_and_omit s table selects omits false true in
  let p := match ps with p :: _ => p | [] => (0, []) end in
  let rows := targeted stored model_key where_ids in
  match handle_set None (map (fun q => assign_map s sm (fst q) (snd q)) earlier) with
  | Some set => guarded_update s model_key where_ids rows set       (* a left-over SET clause is sent again *)
  | None =>
      match vs, is_struct_update o with
      | Some us, Some skip => guarded_update s model_key where_ids rows (assign_patch s us sm skip p)
      | _, _ => run_op s table o selects omits ps stored model_key where_ids
      end
  end.
