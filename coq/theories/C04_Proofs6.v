(* C04_Proofs6.v — propagation (unconditional), nested isolation, the specification as a whole,
   witnesses of the two refuted statements. *)
From Verif Require Import Base C04_Model C04_Check C04_Proofs C04_Proofs2 C04_Proofs3 C04_Proofs4 C04_Proofs5.
Open Scope Z_scope.

Section PropSec.
Variable E : env.
Variable C : cfg.
Variable fault : nat -> bool.

Definition body_prop (body : option err -> st -> res * list obs * option err * st) : Prop :=
  forall h s r l h' s', body h s = (r, l, h', s') -> forallb prop_ok l = true.

Lemma nested_prop : forall body, body_prop body ->
  forall h s r o h' s', nested0 E C fault body h s = (r, o, h', s') ->
  prop_ok o = true /\ exists e l x, o = OC e l x (cls_of r).
Proof.
  intros body HB h s r o h' s' H. unfold nested0 in H.
  destruct (c_nonest C || s_nonest s).
  - destruct (body h s) as [[[r0 l0] h0] s0] eqn:Eb. apply HB in Eb. inversion H; subst.
    split; [|eexists; eexists; eexists; reflexivity].
    pose proof (prop_OC_same _ r Eb) as K. cbn [forallb] in K. rewrite andb_true_r in K. exact K.
  - destruct (h_sp E C fault true (NGen (s_gen s)) h (next_gen s)) as [h1 s1] eqn:Es.
    destruct h1 as [e|]; [inversion H; subst; split; [reflexivity | eexists; eexists; eexists; reflexivity]|].
    destruct (body h s1) as [[[r0 l0] h0] s2] eqn:Eb. apply HB in Eb.
    destruct r0.
    + inversion H; subst. split; [cbn; rewrite Eb; reflexivity | eexists; eexists; eexists; reflexivity].
    + destruct (h_sp E C fault false (NGen (s_gen s)) h (if fault (length (s_ops s2)) then flag_rb s2 else s2)) as [h2 s3].
      inversion H; subst. split; [|eexists; eexists; eexists; reflexivity].
      pose proof (prop_OC_same _ (RErr e) Eb) as K. cbn [forallb] in K. rewrite andb_true_r in K. exact K.
    + destruct (h_sp E C fault false (NGen (s_gen s)) h (if fault (length (s_ops s2)) then flag_rb s2 else s2)) as [h2 s3].
      inversion H; subst. split; [|eexists; eexists; eexists; reflexivity].
      pose proof (prop_OC_same _ (RPan p) Eb) as K. cbn [forallb] in K. rewrite andb_true_r in K. exact K.
Qed.

Lemma nested_cx_prop : forall cx nn body, body_prop body ->
  forall h s r o h' s', nested E C fault cx nn body h s = (r, o, h', s') ->
  prop_ok o = true /\ exists e l x, (if nn then o = ONN (OC e l x (cls_of r)) else o = OC e l x (cls_of r)).
Proof.
  intros cx nn body HB h s r o h' s' H. unfold nested in H.
  destruct (nested0 E C fault body h _) as [[[r0 o0] h0] s0] eqn:En.
  apply (nested_prop _ HB) in En. destruct En as [P [e [l [x Eo]]]]. inversion H; subst.
  destruct nn; (split; [exact P | exists e, l, x; reflexivity]).
Qed.

Lemma run_body_prop : forall p, body_prop (run_body E C fault p).
Proof.
  induction p as [o | m chk k IHk | chk k IHk | b IHb chk rcv cx nn k IHk | n k IHk | n k IHk | k IHk];
    intros h s r l h' s' H; cbn [run_body] in H; [| | | | | |apply IHk in H; exact H].
  - destruct o; inversion H; subst; reflexivity.
  - destruct (h_stmt fault (Some m) h s) as [[e n0] s1].
    destruct e as [e|]; [destruct chk|].
    + inversion H; subst. reflexivity.
    + destruct (run_body E C fault k h s1) as [[[r0 l0] h0] s0] eqn:Ek. apply IHk in Ek. inversion H; subst. exact Ek.
    + destruct (run_body E C fault k h s1) as [[[r0 l0] h0] s0] eqn:Ek. apply IHk in Ek. inversion H; subst. exact Ek.
  - destruct (h_stmt fault None h s) as [[e n0] s1].
    destruct e as [e|]; [destruct chk|].
    + inversion H; subst. reflexivity.
    + destruct (run_body E C fault k h s1) as [[[r0 l0] h0] s0] eqn:Ek. apply IHk in Ek. inversion H; subst. exact Ek.
    + destruct (run_body E C fault k h s1) as [[[r0 l0] h0] s0] eqn:Ek. apply IHk in Ek. inversion H; subst. exact Ek.
  - destruct (nested E C fault cx nn (run_body E C fault b) h s) as [[[r0 o0] h1] s1] eqn:En.
    apply (nested_cx_prop _ _ _ IHb) in En. destruct En as [En _].
    destruct r0 as [|e0|p0].
    + destruct (run_body E C fault k h1 s1) as [[[r1 l1] h2] s2] eqn:Ek. apply IHk in Ek.
      inversion H; subst. cbn [forallb]. rewrite En, Ek. reflexivity.
    + destruct chk; [inversion H; subst; cbn [forallb]; rewrite En; reflexivity|].
      destruct (run_body E C fault k h1 s1) as [[[r1 l1] h2] s2] eqn:Ek. apply IHk in Ek.
      inversion H; subst. cbn [forallb]. rewrite En, Ek. reflexivity.
    + destruct (recovers rcv p0); [|inversion H; subst; cbn [forallb]; rewrite En; reflexivity].
      destruct (run_body E C fault k h1 s1) as [[[r1 l1] h2] s2] eqn:Ek. apply IHk in Ek.
      inversion H; subst. cbn [forallb]. rewrite En, Ek. reflexivity.
  - destruct (h_sp E C fault true (NUser n) h s) as [h1 s1].
    destruct h1; [inversion H; subst; reflexivity|].
    destruct (run_body E C fault k None s1) as [[[r1 l1] h2] s2] eqn:Ek. apply IHk in Ek. inversion H; subst. exact Ek.
  - destruct (h_sp E C fault false (NUser n) h s) as [h1 s1].
    destruct h1; [inversion H; subst; reflexivity|].
    destruct (run_body E C fault k None s1) as [[[r1 l1] h2] s2] eqn:Ek. apply IHk in Ek. inversion H; subst. exact Ek.
Qed.

(* what the outermost call returns when the block function failed is exactly what the function
   returned / panicked with, and every nested call in the tree behaves the same way *)
Definition top_prop (o : obs) : bool :=
  match o with
  | OC _ body exit ret => (is_nil exit || cls_eqb ret exit) && forallb prop_ok body
  | _ => false
  end.

Theorem propagation : forall manual p extra s0 o x s,
  run_top E C fault manual p extra s0 = (o, x, s) -> top_prop o = true.
Proof.
  intros manual p extra s0 o x s H. unfold run_top, issue in H.
  destruct (fault (length (s_ops s0))).
  - inversion H; subst. reflexivity.
  - match type of H with context [run_body E C fault p None ?ss] => set (s1 := ss) in * end.
    destruct (run_body E C fault p None s1) as [[[r l] h] s2] eqn:Eb.
    apply run_body_prop in Eb. unfold finish in H.
    destruct r.
    + destruct (h_end C fault true h s2) as [h2 s3]. destruct h2 as [e|].
      * destruct (h_end C fault false (Some e) s3) as [h4 s4].
        destruct (run_extra C fault (if manual then extra else []) h4 s4). inversion H; subst. cbn. exact Eb.
      * destruct (run_extra C fault (if manual then extra else []) None s3). inversion H; subst. cbn. exact Eb.
    + destruct (h_end C fault false h s2) as [h2 s3].
      destruct (run_extra C fault (if manual then extra else []) h2 s3). inversion H; subst.
      unfold top_prop. rewrite cls_eqb_refl, Eb. reflexivity.
    + destruct (h_end C fault false h s2) as [h2 s3]. inversion H; subst.
      unfold top_prop. rewrite cls_eqb_refl, Eb. reflexivity.
Qed.
End PropSec.

Section Whole.
Variable E : env.
Hypothesis savepoint_pushes : forall n t, sq_save E n t = ref_save n t.
Hypothesis rollback_to_exact : forall n t, sq_rbto E n t = ref_rbto n t.
Hypothesis tx_end_releases : forall l, bal false l = true -> pool E l = (0, 0).
Variable C : cfg.
Hypothesis savepoints : c_nosp C = false.
Hypothesis hard_commit : c_soft C = false.
Variable fault : nat -> bool.

(* connection back in the pool, no transaction open — whatever the program, the outcomes, the
   faults (including faults on ROLLBACK / ROLLBACK TO) and the configuration *)
Theorem released : forall manual p extra db0 o x s,
  run_top E C fault manual p extra (init_st db0) = (o, x, s) -> pool E (rev (s_txlog s)) = (0, 0).
Proof.
  intros manual p extra db0 o x s H. apply tx_end_releases.
  eapply top_balanced; [|exact H]. reflexivity.
Qed.

(* a failing nested block undoes exactly its own writes: the transaction sees the table as it
   was when the block started, the program's save points are as they were, and the enclosing
   handle is returned exactly as it was (the enclosing transaction stays usable) *)
Theorem nested_isolated : forall cx b h s r o h1 s1 t stk,
  c_nonest C = false -> scoped [] b = true -> plain_prog b = true ->
  nested E C fault cx false (run_body E C fault b) h s = (r, o, h1, s1) -> s_dead s = false -> s_nonest s = false ->
  s_tx s = Some (mkTx t stk) -> gen_ok (s_gen s) stk ->
  x_rb (s_fl s1) = false -> x_drop (s_fl s1) = false ->
  h1 = h /\
  (is_ok r = false -> exists stk', s_tx s1 = Some (mkTx t stk') /\ fu stk' = fu stk).
Proof.
  intros cx b h s r o h1 s1 t stk Hn Hsc Hnc H Hdead Hnn Htx Hg Hrb Hdr.
  assert (HBS : body_spec C (run_body E C fault b)).
  { intros hc sc rc lc hc' sc' tc basec Eb Hd0 Htc Hgc Hrc Hdc.
    apply (body_inv E savepoint_pushes rollback_to_exact C savepoints fault b [] hc sc rc lc hc' sc' tc [] basec Eb Hd0 Hnc Htc (sub_nil _) Hsc Hgc Hrc Hdc). }
  destruct (nested_cx_step E savepoint_pushes rollback_to_exact C savepoints fault cx _ HBS (run_body_flags E C fault b)
              h s r o h1 s1 t [] stk H Hdead Htx Hg Hrb Hdr)
    as [Eh [[t1 [local1 [l0 [Eo' [St _]]]]] | [e [_ [Eo' St]]]]]; (split; [exact Eh|]); intro Hr.
  - destruct St as (A1 & A2 & _).
    unfold nest_of in A2. rewrite Eo', spec_OC, Hn, Hnn in A2. cbn [negb orb app] in A2.
    assert (A2' : (t, fu stk) = (t1, fu (local1 ++ stk))).
    { destruct r; [discriminate | exact A2 | exact A2]. }
    inversion A2' as [[Et Ef]].
    exists (local1 ++ stk). split; [exact A1|]. symmetry; exact Ef.
  - destruct St as (A1 & _). exists ([] ++ stk). split; [exact A1 | reflexivity].
Qed.

(* a nested block whose receiver was derived with Session{DisableNestedTransaction: true} is the
   block function and nothing else: no SAVEPOINT, no ROLLBACK TO, whatever the function returns;
   the enclosing handle's own setting is in force again afterwards *)
Theorem nested_disabled_plain : forall body h s r l h0 s0,
  body h (set_nonest s true) = (r, l, h0, s0) ->
  nested E C fault false true body h s
  = (r, ONN (OC true l (cls_of r) (cls_of r)), h, set_nonest s0 (s_nonest s)).
Proof.
  intros body h s r l h0 s0 Eb. unfold nested, nested0.
  cbn [set_nonest s_nonest]. rewrite orb_true_r, Eb. reflexivity.
Qed.

(* the property as the checker evaluates it, on the model's own output *)
Theorem spec_holds_model : forall manual p extra o x s opts,
  run_top E C fault manual p extra (init_st []) = (o, x, s) ->
  scoped [] p = true -> plain_prog p = true ->
  x_rb (s_fl s) = false -> x_drop (s_fl s) = false ->
  spec_holds (mk_case manual p extra [] C None o x [] (s_db s)
                (fst (pool E (rev (s_txlog s)))) (snd (pool E (rev (s_txlog s)))) (rev (s_ops s))
                opts (begin_opt opts) None) = true.
Proof.
  intros manual p extra o x s opts H Hsc Hnc Hrb Hdr.
  unfold spec_holds; cbn [o_in_use o_open_tx o_top o_ops o_table c_cfg c_prog c_extra o_extra].
  rewrite (released _ _ _ _ _ _ _ H). cbn [fst snd Z.eqb andb].
  destruct (top_spec E savepoint_pushes rollback_to_exact C savepoints hard_commit fault _ _ _ _ _ _ _ H Hsc Hnc Hrb Hdr) as [Hat [Ht [Hu Hx]]].
  unfold usable_cfg. rewrite savepoints, Hnc. cbn [negb]. fold (usable o (rev (s_ops s))).
  rewrite <- Hat, same_set_refl, Ht, Hu, Hx. apply orb_true_r.
Qed.
End Whole.

(* ------------------------------------------------------------------ the reference environment *)
Lemma bal_pool : forall l o, bal o l = true ->
  fold_left pool_step l (if o then (1, 1) else (0, 0)) = (0, 0).
Proof.
  induction l as [|c l IH]; intros o H.
  - destruct o; [discriminate | reflexivity].
  - destruct c as [ok|].
    + destruct o; [discriminate|]. cbn [bal] in H. cbn [fold_left pool_step fst snd].
      destruct ok; [apply (IH true H) | apply (IH false H)].
    + cbn [bal] in H. destruct o; cbn [fold_left pool_step fst snd Z.ltb Z.compare]; apply (IH false H).
Qed.

(* the environment the checker runs the model against satisfies the three laws *)
Lemma ref_env_laws :
  (forall n t, sq_save ref_env n t = ref_save n t) /\ (forall n t, sq_rbto ref_env n t = ref_rbto n t) /\ (forall l, bal false l = true -> pool ref_env l = (0, 0)).
Proof.
  repeat split; try reflexivity. intros l H. apply (bal_pool l false H).
Qed.

(* ------------------------------------------------------------------ witnesses *)
Definition cfg_default := mk_cfg false false false true false false false.
Definition cfg_stock := mk_cfg false false false false false false false.
(* tx.Create(1); tx.Transaction(create 2) with its error ignored; tx.Create(3); return nil *)
Definition sticky_prog := Write 1 true (Child (Write 2 true (Done RetNil)) false false false false (Write 3 false (Done RetNil))).
(* the same with a nested block that fails *)
Definition stock_prog := Write 1 true (Child (Write 2 true (Done (RetErr 1))) false false false false (Write 3 false (Done RetNil))).

(* the input of the former finding (fixed in /repo by 1c49b86): a fault on the SAVEPOINT of a
   nested block whose error the enclosing function ignores. The nested call reports the fault, the
   enclosing transaction stays usable (write 3 succeeds), COMMIT succeeds and nil is returned *)
Lemma sticky_now_ok :
  scoped [] sticky_prog = true /\
  let '(o, x, s) := run_top ref_env cfg_default (fault_at (Some 2%nat)) false sticky_prog [] (init_st []) in
  x_rb (s_fl s) = false /\ x_drop (s_fl s) = false /\
  s_db s = [1; 3] /\ top_ok o (rev (s_ops s)) = true /\ usable o (rev (s_ops s)) = true.
Proof. vm_compute. repeat split. Qed.

(* non-vacuity for the per-call switch: write 1; a nested block on
   tx.Session(&Session{DisableNestedTransaction: true}) { write 2; an ordinary nested block
   { write 4; error } ignored; error } ignored; an ordinary nested block { write 5; error }
   ignored; write 3; nil.  The switched-off block and the block inside it undo nothing (2 and 4
   stay), the enclosing handle's own setting is in force again afterwards (5 is undone): exactly
   one SAVEPOINT and one ROLLBACK TO are issued *)
Definition nn_prog :=
  Write 1 true (Child (Write 2 true (Child (Write 4 true (Done (RetErr 2))) false false false false (Done (RetErr 1)))) false false false true
               (Child (Write 5 true (Done (RetErr 3))) false false false false (Write 3 false (Done RetNil)))).
Lemma nn_witness :
  scoped [] nn_prog = true /\ plain_prog nn_prog = true /\
  let '(o, x, s) := run_top ref_env cfg_default (fault_at None) false nn_prog [] (init_st []) in
  s_db s = [1; 2; 4; 3] /\ spec_final true o (rev (s_ops s)) [] = [1; 2; 4; 3] /\
  map fst (rev (s_ops s)) = [KBegin; KStmt; KStmt; KStmt; KSave; KStmt; KRbTo; KStmt; KCommit].
Proof. vm_compute. repeat split. Qed.

(* REFUTED for a dialector that drops save-point errors (stock SQLite dialector): the nested
   block failed but its write 2 is durable *)
Lemma stock_witness :
  exists C p k, scoped [] p = true /\ let '(o, x, s) := run_top ref_env C (fault_at (Some k)) false p [] (init_st []) in
    x_rb (s_fl s) = false /\ x_drop (s_fl s) = true /\ s_db s = [1; 2; 3] /\ spec_final (negb (c_nonest C)) o (rev (s_ops s)) [] = [1; 3].
Proof. exists cfg_stock, stock_prog, 2%nat. vm_compute. repeat split. Qed.

(* non-vacuity: a three-level tree with a save point, a failing grandchild, a fault on a
   statement, meeting every hypothesis of the theorems, with a non-trivial durable set *)
Definition demo_prog :=
  Write 1 true (Save 7 (Write 2 true (Child
     (Write 3 true (Child (Write 4 true (Done (RetErr 5))) true false false false (Done RetNil))) false false false false
     (RbTo 7 (Write 6 true (Write 8 false (Done RetNil))))))).
Lemma demo_instance :
  scoped [] demo_prog = true /\ let '(o, x, s) := run_top ref_env cfg_default (fault_at (Some 12%nat)) false demo_prog [] (init_st []) in
  x_rb (s_fl s) = false /\ x_drop (s_fl s) = false /\ s_db s = [1; 6].
Proof. vm_compute. repeat split. Qed.

(* REFUTED (gorm HEAD b890351, a finding): a nested block started as
   tx.WithContext(ctx).Transaction(..) whose ctx is cancelled inside it and which then fails is
   NOT undone — its deferred ROLLBACK TO SAVEPOINT is issued under the cancelled ctx and never
   reaches the database; the enclosing block commits the nested block's write *)
Definition cancel_prog :=
  Write 1 true (Child (Write 2 true (Cancel (Done (RetErr 1)))) false false true false (Write 3 false (Done RetNil))).
Lemma cancel_witness :
  scoped [] cancel_prog = true /\ plain_prog cancel_prog = false /\
  let '(o, x, s) := run_top ref_env cfg_default (fault_at None) false cancel_prog [] (init_st []) in
  x_rb (s_fl s) = false /\ x_drop (s_fl s) = false /\
  s_db s = [1; 2; 3] /\ spec_final true o (rev (s_ops s)) [] = [1; 3].
Proof. vm_compute. repeat split. Qed.
