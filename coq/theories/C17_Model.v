(* C17_Model.v — executable model of gorm's callback registration (callbacks.go):
   callback / processor.Register / Replace / Remove -> processor.compile -> removeCallbacks ->
   sortCallbacks (sort.SliceStable pre-sort on "*", getRIndex, the recursive closure sortCallback with
   its persistent writes cs[idx].after = c.name and after.before = c.name, the last-by-name pick).
   No proofs here.  Go pointers *callback are indices into the callback slice: every field read goes
   through the current state, exactly like a read through the pointer. *)
From Verif Require Export Base.
Open Scope string_scope.

(* type callback struct { name, before, after string; remove, replace bool; match; handler } *)
Record cb := mk_cb {
  cb_name : string; cb_before : string; cb_after : string;
  cb_remove : bool; cb_replace : bool;
  cb_matched : bool;   (* match == nil || match(p.db), evaluated by compile *)
  cb_hid : N           (* identity of the handler: number of the step that supplied it *)
}.
Definition set_before (c : cb) (s : string) :=
  mk_cb (cb_name c) s (cb_after c) (cb_remove c) (cb_replace c) (cb_matched c) (cb_hid c).
Definition set_after (c : cb) (s : string) :=
  mk_cb (cb_name c) (cb_before c) s (cb_remove c) (cb_replace c) (cb_matched c) (cb_hid c).

Definition star := "*".
Definition is_star (s : string) : bool := String.eqb s star.
Definition is_none (s : string) : bool := String.eqb s "".

(* getRIndex: index of the LAST occurrence; None is Go's -1 *)
Fixpoint rindex (l : list string) (s : string) : option nat :=
  match l with
  | [] => None
  | x :: r => match rindex r s with
              | Some i => Some (S i)
              | None => if String.eqb x s then Some O else None
              end
  end.
Definition absent (l : list string) (s : string) : bool :=
  match rindex l s with None => true | Some _ => false end.

Fixpoint update {A} (l : list A) (i : nat) (f : A -> A) : list A :=
  match l, i with
  | [], _ => []
  | x :: r, O => f x :: r
  | x :: r, S j => x :: update r j f
  end.

(* sorted[:i] ++ [x] ++ sorted[i:] *)
Definition insert_at (l : list string) (i : nat) (x : string) : list string :=
  firstn i l ++ x :: skipn i l.

(* ---- sort.SliceStable(cs, less): for at most 20 elements Go runs one insertion sort
        for i := 1; i < n; i++ { for j := i; j > 0 && less(j, j-1); j-- { swap(j, j-1) } }
   [less_cb x y] is less(j, j-1) with x = cs[j] (the element moving left) and y = cs[j-1]. *)
Definition less_cb (x y : cb) : bool :=
  (is_star (cb_before y) && negb (is_star (cb_before x)))
  || (is_star (cb_after y) && negb (is_star (cb_after x))).
(* the already sorted prefix is kept reversed (nearest neighbour first) *)
Fixpoint ins (x : cb) (rp : list cb) : list cb :=
  match rp with
  | [] => [x]
  | y :: r => if less_cb x y then y :: ins x r else x :: rp
  end.
Definition presort (cs : list cb) : list cb := rev (fold_left (fun rp x => ins x rp) cs []).

(* ---- the closure sortCallback.  State: the callbacks (mutated through pointers) and [sorted]. *)
Record sst := mk_sst { s_cs : list cb; s_sorted : list string }.

Inductive outcome :=
| Done (st : sst)
| Conflict (st : sst) (name target : string)   (* fmt.Errorf("conflicting callback %s with before %s") *)
| Cyclic (st : sst) (name : string).            (* depth > 2*len(cs)+2: fmt.Errorf("conflicting callback %s with cyclic before/after") *)

Definition nonempty {A} (l : list A) : bool := match l with [] => false | _ => true end.

(* if c.before != "" { ... }  -- no recursion in this half *)
Definition do_before (names : list string) (st : sst) (c : cb) : outcome :=
  let name := cb_name c in
  let cs := s_cs st in
  let sorted := s_sorted st in
  if is_none (cb_before c) then Done st
  else if is_star (cb_before c) && nonempty sorted then
    (* sorted = append([]string{c.name}, sorted...) unless already there *)
    (if absent sorted name then Done (mk_sst cs (name :: sorted)) else Done st)
  else match rindex sorted (cb_before c) with
       | Some sidx =>
         match rindex sorted name with
         | None => Done (mk_sst cs (insert_at sorted sidx name))
         | Some cidx => if Nat.ltb sidx cidx then Conflict st name (cb_before c) else Done st
         end
       | None =>
         match rindex names (cb_before c) with
         | Some idx => Done (mk_sst (update cs idx (fun t => set_after t name)) sorted) (* cs[idx].after = c.name *)
         | None => Done st
         end
       end.

(* if c.after != "" { ... }  -- either finished, or "sortCallback(after); sortCallback(c)" *)
Inductive acase :=
| ADone (o : outcome)
| ARec (idx : nat) (st : sst).

Definition do_after (names : list string) (st : sst) (c : cb) : acase :=
  let name := cb_name c in
  let cs := s_cs st in
  let sorted := s_sorted st in
  if is_none (cb_after c) then ADone (Done st)
  else if is_star (cb_after c) && nonempty sorted then
    (if absent sorted name then ADone (Done (mk_sst cs (sorted ++ [name]))) else ADone (Done st))
  else match rindex sorted (cb_after c) with
       | Some sidx =>
         match rindex sorted name with
         | None => ADone (Done (mk_sst cs (sorted ++ [name])))
         | Some cidx => if Nat.ltb cidx sidx then ADone (Conflict st name (cb_after c)) else ADone (Done st)
         end
       | None =>
         match rindex names (cb_after c) with
         | Some idx =>
           (* after := cs[idx]; if after.before == "" { after.before = c.name } *)
           let cs2 := match nth_error cs idx with
                      | Some a => if is_none (cb_before a)
                                  then update cs idx (fun t => set_before t name) else cs
                      | None => cs
                      end in
           ARec idx (mk_sst cs2 sorted)
         | None => ADone (Done st)
         end
       end.

(* if getRIndex(sorted, c.name) == -1 { sorted = append(sorted, c.name) } *)
Definition finish (st : sst) (name : string) : sst :=
  if absent (s_sorted st) name then mk_sst (s_cs st) (s_sorted st ++ [name]) else st.

Fixpoint sort_cb (fuel : nat) (names : list string) (st : sst) (i : nat) : outcome :=
  match fuel with
  | O => (* depth++ ; if depth > 2*len(cs)+2 { return error } : the call at depth fuel+1 *)
    match nth_error (s_cs st) i with
    | None => Done st
    | Some c => Cyclic st (cb_name c)
    end
  | S f =>
    match nth_error (s_cs st) i with
    | None => Done st
    | Some c =>
      match do_before names st c with
      | Done st1 =>
        (* c is read again through the pointer: the write above may have hit c itself *)
        match nth_error (s_cs st1) i with
        | None => Done st1
        | Some c1 =>
          let r2 := match do_after names st1 c1 with
                    | ADone o => o
                    | ARec idx st2 =>
                      match sort_cb f names st2 idx with
                      | Done st3 => sort_cb f names st3 i
                      | e => e
                      end
                    end in
          match r2 with
          | Done st4 => Done (finish st4 (cb_name c))
          | e => e
          end
        end
      | e => e
      end
    end
  end.

(* for _, c := range cs { if err = sortCallback(c); err != nil { return } } *)
Fixpoint sort_loop (fuel : nat) (names : list string) (st : sst) (i n : nat) : outcome :=
  match n with
  | O => Done st
  | S m => match sort_cb fuel names st i with
           | Done st' => sort_loop fuel names st' (S i) m
           | e => e
           end
  end.

(* for _, name := range sorted { if idx := getRIndex(names, name); !cs[idx].remove { fns += cs[idx].handler } } *)
Fixpoint pick (cs : list cb) (names sorted : list string) : list (string * N) :=
  match sorted with
  | [] => []
  | n :: r =>
    match rindex names n with
    | Some idx => match nth_error cs idx with
                  | Some c => if cb_remove c then pick cs names r else (n, cb_hid c) :: pick cs names r
                  | None => pick cs names r
                  end
    | None => pick cs names r
    end
  end.

Definition depth_fuel (cs : list cb) : nat := 2 * length cs + 2.

Inductive sorted_result :=
| SOk (cs : list cb) (fns : list (string * N))
| SErr (cs : list cb) (name target : string)
| SCyc (cs : list cb) (name : string).

Definition sort_callbacks (cs0 : list cb) : sorted_result :=
  let cs := presort cs0 in
  let names := map cb_name cs in
  match sort_loop (depth_fuel cs) names (mk_sst cs []) O (length cs) with
  | Done st => SOk (s_cs st) (pick (s_cs st) names (s_sorted st))
  | Conflict st n t => SErr (s_cs st) n t
  | Cyclic st n => SCyc (s_cs st) n
  end.

(* processor.compile, on p.callbacks with the new callback already appended *)
Definition mem (l : list string) (s : string) : bool := existsb (String.eqb s) l.
Definition compile_filter (cs0 : list cb) : list cb :=
  let kept := filter cb_matched cs0 in
  let removed := map cb_name (filter cb_remove cs0) in
  match removed with
  | [] => kept
  | _ => filter (fun c => negb (mem removed (cb_name c))) kept
  end.

(* ---- histories *)
Inductive kind := KRegister | KReplace | KRemove.
Record step := mk_step {
  st_kind : kind; st_name : string; st_before : string; st_after : string;
  st_builtin : bool;   (* part of the default registration of the pipeline *)
  st_matched : bool    (* value of the Match guard (true when there is none) *)
}.

(* callback.Replace since /repo e28c215: "a replacement keeps the place of the "*" callback it replaces":
     for i := len(p.callbacks)-1; i >= 0 && c.before == "" && c.after == ""; i-- {
       if o := p.callbacks[i]; o.name == name && !o.remove {
         if o.before == "*" || o.after == "*" { c.before, c.after = o.before, o.after }; break } } *)
Fixpoint last_live_named (cs : list cb) (n : string) : option cb :=
  match cs with
  | [] => None
  | c :: r => match last_live_named r n with
              | Some x => Some x
              | None => if String.eqb (cb_name c) n && negb (cb_remove c) then Some c else None
              end
  end.
Definition replace_fields (cs : list cb) (s : step) : string * string :=
  if is_none (st_before s) && is_none (st_after s) then
    match last_live_named cs (st_name s) with
    | Some o => if is_star (cb_before o) || is_star (cb_after o) then (cb_before o, cb_after o)
                else (st_before s, st_after s)
    | None => (st_before s, st_after s)
    end
  else (st_before s, st_after s).

(* [cs] = p.callbacks at the time of the call *)
Definition cb_of_step (cs : list cb) (s : step) (hid : N) : cb :=
  match st_kind s with
  | KRegister => mk_cb (st_name s) (st_before s) (st_after s) false false (st_matched s) hid
  | KReplace  => mk_cb (st_name s) (fst (replace_fields cs s)) (snd (replace_fields cs s)) false true (st_matched s) hid
  | KRemove   => mk_cb (st_name s) (st_before s) (st_after s) true false (st_matched s) hid
  end.

(* what a call returns / what the pipeline then does *)
Inductive obs :=
| OOk (fired : list (string * N))
| OErr (msg : string) (fired : list (string * N))
| OCrash.   (* the process died: never an answer of this model since the depth guard of /repo 591f9f1 *)

Definition conflict_msg (n t : string) : string :=
  "conflicting callback " ++ n ++ " with before " ++ t.
Definition cyclic_msg (n : string) : string :=
  "conflicting callback " ++ n ++ " with cyclic before/after".

(* processor state: p.callbacks and p.fns (as (name, handler id)) *)
Record proc := mk_proc { p_cs : list cb; p_fns : list (string * N) }.

Definition run_step (p : proc) (s : step) (hid : N) : option proc * obs :=
  match sort_callbacks (compile_filter (p_cs p ++ [cb_of_step (p_cs p) s hid])) with
  | SOk cs fns => (Some (mk_proc cs fns), OOk fns)
  | SErr cs n t => (Some (mk_proc cs []), OErr (conflict_msg n t) [])
  | SCyc cs n => (Some (mk_proc cs []), OErr (cyclic_msg n) [])
  end.

Fixpoint run_from (p : proc) (hid : N) (h : list step) : list obs :=
  match h with
  | [] => []
  | s :: r => match run_step p s hid with
              | (Some p', o) => o :: run_from p' (N.succ hid) r
              | (None, o) => [o]
              end
  end.
Definition run (h : list step) : list obs := run_from (mk_proc [] []) 0%N h.
