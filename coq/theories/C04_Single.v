(* C04_Single.v — executable model of the transaction gorm opens by itself around ONE write call made
   outside any block (callbacks/transaction.go BeginTransaction / CommitOrRollbackTransaction, the
   first and the last callback of the create / update / delete pipelines), over the state and the
   driver operations of C04_Model; and of how Begin picks the transaction options.  No proofs here. *)
From Verif Require Export Base C04_Model.
Open Scope Z_scope.

(* finisher_api.go Begin(opts ...*sql.TxOptions): if len(opts) > 0 { opt = opts[0] }, then
   beginner.BeginTx(ctx, opt).  Codes: 0 = a nil pointer (no options), > 0 = the harness' option
   values.  Nothing else in Transaction / Begin / Commit / Rollback looks at the options (run_top
   does not take them): the block runs, commits and rolls back the same whatever they are. *)
Definition begin_opt (opts : list Z) : Z := match opts with [] => 0 | o :: _ => o end.

(* calls made on the pool handle outside any block: db.Create(&marker) / db.Model(..).Count(&n) *)
(* SExec: db.Exec("INSERT ..") - the raw pipeline has no transaction callbacks either *)
Inductive scall := SWrite (m : Z) | SExec (m : Z) | SRead.

Section Single.
Variable C : cfg.
Variable fault : nat -> bool.

(* a statement on the pool, outside any transaction: it is durable by itself (autocommit) *)
Definition pool_stmt (w : option Z) (s : st) : option err * Z * st :=
  let '(f, s1) := issue fault KStmt s in
  if f then (Some fault_err, 0, s1)
  else match w with
       | Some m => (None, 0, set_db s1 (s_db s1 ++ [m]))
       | None => (None, Z.of_nat (length (s_db s1)), s1)
       end.

(* one write call.  BeginTransaction: if !SkipDefaultTransaction && db.Error == nil { tx := db.Begin();
   ok: the statement's ConnPool becomes the transaction, "gorm:started_transaction" is set;
   tx.Error (not ErrInvalidTransaction: the pool can begin): db.Error = tx.Error, so every later
   callback (each guarded by db.Error == nil) is skipped and nothing was started }.
   CommitOrRollbackTransaction: if started { if db.Error != nil { db.Rollback() } else { db.Commit() } },
   both AddError their result on the call's own handle; the result's Error is that handle's Error. *)
Definition single_write (m : Z) (s : st) : cls * st :=
  if c_skipdef C then
    let '(e, _, s1) := pool_stmt (Some m) s in (cls_oe e, s1)
  else
    let '(f, s1) := issue fault KBegin s in
    if f then (CErr fault_err, log_tx s1 (TBegin false))
    else
      let s2 := set_tx (log_tx s1 (TBegin true)) (Some (mkTx (s_db s1) [])) in
      let '(e, _, s3) := h_stmt fault (Some m) None s2 in
      let '(h2, s4) := h_end C fault (match e with None => true | Some _ => false end) e s3 in
      (cls_oe h2, s4).

Fixpoint run_singles (l : list scall) (s : st) : list obs * st :=
  match l with
  | [] => ([], s)
  | SWrite m :: r =>
    let '(c, s1) := single_write m s in
    let '(o, s2) := run_singles r s1 in (OW m c :: o, s2)
  | SExec m :: r =>
    let '(e, _, s1) := pool_stmt (Some m) s in
    let '(o, s2) := run_singles r s1 in (OW m (cls_oe e) :: o, s2)
  | SRead :: r =>    (* the query pipeline has no transaction callbacks *)
    let '(e, n, s1) := pool_stmt None s in
    let '(o, s2) := run_singles r s1 in (OR (cls_oe e) n :: o, s2)
  end.

End Single.
