(* C07_Model.v — the schema-cache protocol of schema/schema.go as a small-step interleaving
   semantics.  Modelled code, line by line (pinned /repo):

     schema.ParseWithSpecialTableName (public path, also reached from Statement.Parse)
        PLoad1   cacheStore.Load(key): hit -> <-s.initialized ; return s, s.err     (l.158-163)
        PBuild   miss: namer.TableName(...); schema := &Schema{initialized: make(chan)} ;
                 defer close(schema.initialized)                                   (l.165-193)
        PLoad2   second cacheStore.Load(key): hit -> wait -> return                 (l.196-201)
                 [fields are parsed here, on the goroutine's private schema: no shared access;
                  embedded structs are parsed into a PRIVATE sync.Map (field.go l.398)]
        PStore   cacheStore.LoadOrStore(key, schema): loaded -> wait on the winner   (l.325-331)
                 defer { if schema.err != nil { cacheStore.Delete(modelType) } }    (l.333-338)
        PRel i   relation loop, field i: schema.parseRelation(field) ->
                 getOrParse: cacheStore.Load(target): hit -> return v, nil  WITHOUT waiting
                 (l.419-421) ; miss -> Parse(target) (a nested call: new frame)     (l.423)
        PGuess   guessRelation & setRelation with the FieldSchema obtained ; a malformed
                 relation sets schema.err and the loop returns                      (l.342-343)
        PDelete  deferred Delete (runs first: registered last), only when schema.err != nil
        PClose   deferred close(schema.initialized)
        PWait    <-s.initialized of ANOTHER schema (enabled only once it is closed)
        PRet     the return value (s, s.err) reaches the caller: the harness, or the
                 parseRelation that called getOrParse -> Parse (schema.err = err on error)

   One step = one atomic action of one goroutine (a sync.Map operation, a channel close, a
   channel receive, or a block of goroutine-local work).  A goroutine is a stack of frames
   (nested Parse calls made by getOrParse) plus the list of public Parse calls still to issue.
   Relation targets and whether a relation is well formed come from the configuration
   ([cfg] : per type, its relation fields in declaration order).

   Ghost components (read by theorems and the checker only, never by [step]): the global clock,
   publication times, frame birth times, owner/depth of a schema, the event trace.
   No proofs here. *)
From Verif Require Export Base.

Definition ty := nat.
Definition sid := nat.
Definition tid := nat.

Record relf := mk_rel { r_to : ty; r_ok : bool }.
Definition config := list (list relf).
Definition rels (cfg : config) (t : ty) : list relf := nth t cfg [].

Inductive pc :=
| PLoad1
| PBuild
| PLoad2 (s : sid)
| PStore (s : sid)
| PRel (s : sid) (i : nat)
| PNest (s : sid) (i : nat) (ok : bool)  (* a nested Parse(target of relation i) is in flight;
                                            ok = the relation field itself is well formed *)
| PGuess (s : sid) (i : nat) (fs : sid) (ok : bool)
| PDelete (s : sid)
| PClose (s : sid) (r : sid)             (* deferred close(own s.initialized); r is returned *)
| PWait (own : option sid) (w : sid)     (* <-w.initialized *)
| PRet (r : sid).                        (* return r, r.err to the caller (goroutine-local) *)

Record frame := mk_f { f_ty : ty; f_pc : pc; f_born : nat }.

(* what a public Parse call returned, with what was true at that very moment *)
Record ret := mk_ret {
  rt_ty : ty; rt_sid : sid; rt_err : bool;
  rt_closed : bool;       (* the returned schema's initialized channel was closed *)
  rt_sty : ty;            (* the model type of the returned schema *)
  rt_nrel : nat;          (* relations installed in the returned schema *)
  rt_relclosed : bool     (* every FieldSchema of its relations was closed too *)
}.

Record thread := mk_t { t_stack : list frame; t_todo : list ty; t_rets : list ret }.

Record srec := mk_s {
  s_ty : ty; s_owner : tid; s_depth : nat;   (* ghost: allocating goroutine, stack height *)
  s_closed : bool; s_err : bool;
  s_rel : list sid;                          (* FieldSchema of the relations installed so far *)
  s_pub : nat                                (* ghost: clock at LoadOrStore success, 0 = never *)
}.

Inductive event :=
| EStart (g : tid) (t : ty)
| EBuild (g : tid) (t : ty) (s : sid)
| EStore (g : tid) (t : ty) (s : sid) (won : bool)
| EGuess (g : tid) (t : ty) (i : nat) (fs : sid) (fs_closed : bool) (fs_mine : bool)
| EDelete (g : tid) (t : ty) (s : sid)
| EClose (g : tid) (s : sid)
| ERet (g : tid) (t : ty) (s : sid) (err : bool).

Record state := mk_st {
  st_cache : ty -> option sid;
  st_sch : sid -> srec;
  st_nsch : nat;
  st_thr : tid -> thread;
  st_nthr : nat;
  st_clk : nat;
  st_trace : list event        (* newest first *)
}.

Definition dummy_s : srec := mk_s 0 0 0 false false [] 0.
Definition idle_t : thread := mk_t [] [] [].

Definition upd {A} (f : nat -> A) (k : nat) (v : A) : nat -> A :=
  fun x => if Nat.eqb x k then v else f x.

Definition set_closed (r : srec) : srec :=
  mk_s (s_ty r) (s_owner r) (s_depth r) true (s_err r) (s_rel r) (s_pub r).
Definition set_err (r : srec) : srec :=
  mk_s (s_ty r) (s_owner r) (s_depth r) (s_closed r) true (s_rel r) (s_pub r).
Definition add_rel (r : srec) (fs : sid) : srec :=
  mk_s (s_ty r) (s_owner r) (s_depth r) (s_closed r) (s_err r) (s_rel r ++ [fs]) (s_pub r).
Definition set_pub (r : srec) (c : nat) : srec :=
  mk_s (s_ty r) (s_owner r) (s_depth r) (s_closed r) (s_err r) (s_rel r) c.

Definition initial (progs : list (list ty)) : state :=
  mk_st (fun _ => None) (fun _ => dummy_s) 0
        (fun g => mk_t [] (nth g progs []) []) (length progs) 1 [].

(* replace the program counter of the top frame *)
Definition set_top (th : thread) (p : pc) : thread :=
  match t_stack th with
  | f :: r => mk_t (mk_f (f_ty f) p (f_born f) :: r) (t_todo th) (t_rets th)
  | [] => th
  end.

Definition with_thr (st : state) (g : tid) (th : thread) : state :=
  mk_st (st_cache st) (st_sch st) (st_nsch st) (upd (st_thr st) g th) (st_nthr st)
        (S (st_clk st)) (st_trace st).
Definition with_ev (st : state) (e : event) : state :=
  mk_st (st_cache st) (st_sch st) (st_nsch st) (st_thr st) (st_nthr st) (st_clk st)
        (e :: st_trace st).
Definition with_sch (st : state) (s : sid) (r : srec) : state :=
  mk_st (st_cache st) (upd (st_sch st) s r) (st_nsch st) (st_thr st) (st_nthr st) (st_clk st)
        (st_trace st).
Definition with_cache (st : state) (t : ty) (v : option sid) : state :=
  mk_st (upd (st_cache st) t v) (st_sch st) (st_nsch st) (st_thr st) (st_nthr st) (st_clk st)
        (st_trace st).
Definition with_nsch (st : state) (n : nat) : state :=
  mk_st (st_cache st) (st_sch st) n (st_thr st) (st_nthr st) (st_clk st) (st_trace st).

Definition all_closed (st : state) (l : list sid) : bool :=
  forallb (fun s => s_closed (st_sch st s)) l.

(* the frame on top returns schema r (closed by now) with r.err: delivered to the frame below
   (a parseRelation waiting in getOrParse -> Parse) or, at the bottom, to the caller *)
Definition deliver (st : state) (g : tid) (th : thread) (t : ty) (r : sid) : state :=
  let e := s_err (st_sch st r) in
  match t_stack th with
  | [] => st
  | _ :: [] =>
      let rr := mk_ret t r e (s_closed (st_sch st r)) (s_ty (st_sch st r))
                       (length (s_rel (st_sch st r))) (all_closed st (s_rel (st_sch st r))) in
      with_ev (with_thr st g (mk_t [] (t_todo th) (t_rets th ++ [rr]))) (ERet g t r e)
  | _ :: p :: rest =>
      match f_pc p with
      | PNest s i ok =>
          if e then
            (* parseRelation: schema.err = err ; the loop returns schema, schema.err *)
            with_thr (with_sch st s (set_err (st_sch st s))) g
                     (mk_t (mk_f (f_ty p) (PDelete s) (f_born p) :: rest) (t_todo th) (t_rets th))
          else
            with_thr st g
                     (mk_t (mk_f (f_ty p) (PGuess s i r ok) (f_born p) :: rest) (t_todo th) (t_rets th))
      | _ => st
      end
  end.

Definition step (cfg : config) (st : state) (g : tid) : option state :=
  if negb (Nat.ltb g (st_nthr st)) then None else
  let th := st_thr st g in
  match t_stack th with
  | [] =>
      match t_todo th with
      | [] => None
      | t :: todo =>
          Some (with_ev (with_thr st g (mk_t [mk_f t PLoad1 (st_clk st)] todo (t_rets th)))
                        (EStart g t))
      end
  | f :: below =>
      let t := f_ty f in
      match f_pc f with
      | PLoad1 =>
          match st_cache st t with
          | Some w => Some (with_thr st g (set_top th (PWait None w)))
          | None => Some (with_thr st g (set_top th PBuild))
          end
      | PBuild =>
          let s := st_nsch st in
          let st1 := with_nsch (with_sch st s (mk_s t g (length below) false false [] 0)) (S s) in
          Some (with_ev (with_thr st1 g (set_top th (PLoad2 s))) (EBuild g t s))
      | PLoad2 s =>
          match st_cache st t with
          | Some w => Some (with_thr st g (set_top th (PWait (Some s) w)))
          | None => Some (with_thr st g (set_top th (PStore s)))
          end
      | PStore s =>
          match st_cache st t with
          | Some w => Some (with_ev (with_thr st g (set_top th (PWait (Some s) w)))
                                    (EStore g t s false))
          | None =>
              let st1 := with_sch (with_cache st t (Some s)) s (set_pub (st_sch st s) (st_clk st)) in
              Some (with_ev (with_thr st1 g (set_top th (PRel s 0))) (EStore g t s true))
          end
      | PRel s i =>
          match nth_error (rels cfg t) i with
          | None => Some (with_thr st g (set_top th (PClose s s)))
          | Some r =>
              match st_cache st (r_to r) with
              | Some fs => Some (with_thr st g (set_top th (PGuess s i fs (r_ok r))))
              | None =>
                  let th1 := set_top th (PNest s i (r_ok r)) in
                  Some (with_thr st g (mk_t (mk_f (r_to r) PLoad1 (st_clk st) :: t_stack th1)
                                            (t_todo th) (t_rets th)))
              end
          end
      | PNest _ _ _ => None
      | PGuess s i fs ok =>
          let ev := EGuess g t i fs (s_closed (st_sch st fs)) (Nat.eqb (s_owner (st_sch st fs)) g) in
          if ok then
            Some (with_ev (with_thr (with_sch st s (add_rel (st_sch st s) fs)) g
                                    (set_top th (PRel s (S i)))) ev)
          else
            Some (with_ev (with_thr (with_sch st s (set_err (st_sch st s))) g
                                    (set_top th (PDelete s))) ev)
      | PDelete s =>
          Some (with_ev (with_thr (with_cache st t None) g (set_top th (PClose s s)))
                        (EDelete g t s))
      | PClose s r =>
          Some (with_ev (with_thr (with_sch st s (set_closed (st_sch st s))) g (set_top th (PRet r)))
                        (EClose g s))
      | PWait own w =>
          if s_closed (st_sch st w) then
            match own with
            | Some s => Some (with_thr st g (set_top th (PClose s w)))
            | None => Some (with_thr st g (set_top th (PRet w)))
            end
          else None
      | PRet r => Some (deliver st g th t r)
      end
  end.

Fixpoint run (cfg : config) (st : state) (sched : list tid) : option state :=
  match sched with
  | [] => Some st
  | g :: r => match step cfg st g with Some st' => run cfg st' r | None => None end
  end.

Definition finished_t (th : thread) : bool :=
  match t_stack th, t_todo th with [], [] => true | _, _ => false end.

Fixpoint all_below (n : nat) (p : nat -> bool) : bool :=
  match n with 0 => true | S k => p k && all_below k p end.
Fixpoint any_below (n : nat) (p : nat -> bool) : bool :=
  match n with 0 => false | S k => p k || any_below k p end.

Definition all_finished (st : state) : bool :=
  all_below (st_nthr st) (fun g => finished_t (st_thr st g)).
Definition enabled (cfg : config) (st : state) (g : tid) : bool :=
  match step cfg st g with Some _ => true | None => false end.
Definition some_enabled (cfg : config) (st : state) : bool :=
  any_below (st_nthr st) (enabled cfg st).

(* the hazard: a relation was built against a schema that another goroutine had published
   but not yet finished (its initialized channel still open) *)
Definition hazard_ev (e : event) : bool :=
  match e with EGuess _ _ _ _ c mine => negb c && negb mine | _ => false end.
Definition hazard (st : state) : bool := existsb hazard_ev (st_trace st).

(* a warm cache: every type of the configuration already parsed, closed, error free *)
Definition warm (cfg : config) (progs : list (list ty)) : state :=
  let n := length cfg in
  mk_st (fun t => if Nat.ltb t n then Some t else None)
        (fun s => if Nat.ltb s n then mk_s s 0 0 true false (map r_to (rels cfg s)) 1 else dummy_s)
        n (fun g => mk_t [] (nth g progs []) []) (length progs) 2 [].
