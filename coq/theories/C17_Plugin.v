(* C17_Plugin.v — the "plugin" domain: Before/After requests that name built-in callbacks (live or
   removed) or names that are never registered, no "*".  There sortCallbacks neither recurses nor
   writes into callbacks: it is the simple insertion procedure [simple_loop].  Part 1: one compile. *)
From Verif Require Import Base C17_Model C17_Proofs.
From Coq Require Import Permutation.
Open Scope string_scope.
Open Scope list_scope.

(* ------------------------------------------------------------------ no "*": the pre-sort is the identity *)
Definition nostar (c : cb) : Prop := is_star (cb_before c) = false /\ is_star (cb_after c) = false.

Lemma less_cb_nostar : forall x y, nostar y -> less_cb x y = false.
Proof. intros x y [A B]. unfold less_cb. now rewrite A, B. Qed.

Lemma fold_ins_nostar : forall cs acc,
  (forall c, In c cs -> nostar c) -> (forall c, In c acc -> nostar c) ->
  fold_left (fun rp x => ins x rp) cs acc = rev cs ++ acc.
Proof.
  induction cs as [|x cs IH]; intros acc Hcs Hacc; cbn; [reflexivity|].
  assert (E : ins x acc = x :: acc).
  { destruct acc as [|y r]; [reflexivity|]. cbn. now rewrite less_cb_nostar by (apply Hacc; left; reflexivity). }
  rewrite E, IH.
  - now rewrite <- app_assoc.
  - intros c Hc. apply Hcs. right. exact Hc.
  - intros c [<-|Hc]; [apply Hcs; left; reflexivity|apply Hacc, Hc].
Qed.

Lemma presort_nostar : forall cs, (forall c, In c cs -> nostar c) -> presort cs = cs.
Proof.
  intros cs H. unfold presort. rewrite fold_ins_nostar; auto.
  - now rewrite app_nil_r, rev_involutive.
  - intros c [].
Qed.

(* Replace (since /repo e28c215) copies the requests of a "*" callback only *)
Lemma last_live_named_in : forall cs n o, last_live_named cs n = Some o -> In o cs.
Proof.
  induction cs as [|c cs IH]; intros n o; cbn; [discriminate|].
  destruct (last_live_named cs n) as [x|] eqn:E.
  - intros [= <-]. right. eapply IH; eauto.
  - destruct (String.eqb (cb_name c) n && negb (cb_remove c)); [|discriminate]. intros [= <-]. left. reflexivity.
Qed.

Lemma replace_fields_nostar : forall cs s,
  (forall c, In c cs -> nostar c) -> replace_fields cs s = (st_before s, st_after s).
Proof.
  intros cs s H. unfold replace_fields.
  destruct (is_none (st_before s) && is_none (st_after s)); [|reflexivity].
  destruct (last_live_named cs (st_name s)) as [o|] eqn:E; [|reflexivity].
  destruct (H o (last_live_named_in _ _ _ E)) as [A B]. now rewrite A, B.
Qed.

(* ------------------------------------------------------------------ the simple procedure *)
Definition simple_before (sorted : list string) (c : cb) : option (list string) :=
  if is_none (cb_before c) then Some sorted
  else match rindex sorted (cb_before c) with
       | Some sidx => match rindex sorted (cb_name c) with
                      | None => Some (insert_at sorted sidx (cb_name c))
                      | Some cidx => if Nat.ltb sidx cidx then None else Some sorted
                      end
       | None => Some sorted
       end.
Definition simple_after (sorted : list string) (c : cb) : option (list string) :=
  if is_none (cb_after c) then Some sorted
  else match rindex sorted (cb_after c) with
       | Some sidx => match rindex sorted (cb_name c) with
                      | None => Some (sorted ++ [cb_name c])
                      | Some cidx => if Nat.ltb cidx sidx then None else Some sorted
                      end
       | None => Some sorted
       end.
Definition simple_finish (sorted : list string) (n : string) : list string :=
  if absent sorted n then sorted ++ [n] else sorted.
Definition simple_cb (sorted : list string) (c : cb) : option (list string) :=
  match simple_before sorted c with
  | None => None
  | Some s1 => match simple_after s1 c with
               | None => None
               | Some s2 => Some (simple_finish s2 (cb_name c))
               end
  end.
Fixpoint simple_loop (sorted : list string) (cs : list cb) : option (list string) :=
  match cs with
  | [] => Some sorted
  | c :: r => match simple_cb sorted c with
              | None => None
              | Some s => simple_loop s r
              end
  end.

(* a request is inert when it names nothing ("" ), something already sorted (in S), or no callback at all *)
Definition inert (S names : list string) (t : string) : Prop := is_none t = true \/ In t S \/ ~ In t names.
Definition ready (S names : list string) (c : cb) : Prop :=
  nostar c /\ inert S names (cb_before c) /\ inert S names (cb_after c).

Definition is_conflict (cs : list cb) (o : outcome) : Prop :=
  exists st n t, o = Conflict st n t /\ s_cs st = cs.

Lemma star_nonempty_false : forall t (l : list string), is_star t = false -> is_star t && nonempty l = false.
Proof. intros t l H. now rewrite H. Qed.

Lemma do_before_simple : forall S names cs sorted c,
  ready S names c -> incl S sorted ->
  match simple_before sorted c with
  | Some s1 => do_before names (mk_sst cs sorted) c = Done (mk_sst cs s1)
  | None => is_conflict cs (do_before names (mk_sst cs sorted) c)
  end.
Proof.
  intros S names cs sorted c ((Sb & _) & Ib & _) HS. unfold simple_before, do_before. cbn [s_cs s_sorted].
  destruct (is_none (cb_before c)) eqn:En; [reflexivity|].
  rewrite (star_nonempty_false _ sorted Sb).
  destruct (rindex sorted (cb_before c)) as [sidx|] eqn:Er.
  - destruct (rindex sorted (cb_name c)) as [cidx|]; [|reflexivity].
    destruct (Nat.ltb sidx cidx); [|reflexivity]. eexists _, _, _. split; reflexivity.
  - destruct Ib as [Ib|[Ib|Ib]]; [congruence| |].
    + apply rindex_none in Er. exfalso. apply Er, HS, Ib.
    + apply rindex_none in Ib. now rewrite Ib.
Qed.

Lemma do_after_simple : forall S names cs sorted c,
  ready S names c -> incl S sorted ->
  match simple_after sorted c with
  | Some s1 => do_after names (mk_sst cs sorted) c = ADone (Done (mk_sst cs s1))
  | None => exists o, do_after names (mk_sst cs sorted) c = ADone o /\ is_conflict cs o
  end.
Proof.
  intros S names cs sorted c ((_ & Sa) & _ & Ia) HS. unfold simple_after, do_after. cbn [s_cs s_sorted].
  destruct (is_none (cb_after c)) eqn:En; [reflexivity|].
  rewrite (star_nonempty_false _ sorted Sa).
  destruct (rindex sorted (cb_after c)) as [sidx|] eqn:Er.
  - destruct (rindex sorted (cb_name c)) as [cidx|]; [|reflexivity].
    destruct (Nat.ltb cidx sidx); [|reflexivity]. eexists. split; [reflexivity|]. eexists _, _, _. split; reflexivity.
  - destruct Ia as [Ia|[Ia|Ia]]; [congruence| |].
    + apply rindex_none in Er. exfalso. apply Er, HS, Ia.
    + apply rindex_none in Ia. now rewrite Ia.
Qed.

Lemma simple_before_grows : forall sorted c s1, simple_before sorted c = Some s1 -> incl sorted s1.
Proof.
  intros sorted c s1. unfold simple_before.
  destruct (is_none (cb_before c)); [intros [= <-]; apply incl_refl|].
  destruct (rindex sorted (cb_before c)) as [sidx|]; [|intros [= <-]; apply incl_refl].
  destruct (rindex sorted (cb_name c)) as [cidx|].
  - destruct (Nat.ltb sidx cidx); [discriminate|intros [= <-]; apply incl_refl].
  - intros [= <-] y Hy. apply in_insert_at. right. exact Hy.
Qed.

Lemma sort_cb_simple : forall S names cs sorted c i f,
  nth_error cs i = Some c -> ready S names c -> incl S sorted ->
  match simple_cb sorted c with
  | Some s' => sort_cb (Datatypes.S f) names (mk_sst cs sorted) i = Done (mk_sst cs s')
  | None => is_conflict cs (sort_cb (Datatypes.S f) names (mk_sst cs sorted) i)
  end.
Proof.
  intros S names cs sorted c i f Hc R HS. cbn [sort_cb s_cs]. rewrite Hc.
  unfold simple_cb.
  pose proof (do_before_simple S names cs sorted c R HS) as HB.
  destruct (simple_before sorted c) as [s1|] eqn:E1.
  2:{ destruct HB as (st & n & t & -> & Hcs). eexists _, _, _. split; [reflexivity|exact Hcs]. }
  rewrite HB. cbn [s_cs]. rewrite Hc.
  assert (HS1 : incl S s1) by (eapply incl_tran; [exact HS|eapply simple_before_grows; eauto]).
  pose proof (do_after_simple S names cs s1 c R HS1) as HA.
  destruct (simple_after s1 c) as [s2|] eqn:E2.
  - rewrite HA. unfold finish, simple_finish. cbn [s_sorted s_cs].
    destruct (absent s2 (cb_name c)); reflexivity.
  - destruct HA as (o & -> & (st & n & t & -> & Hcs)). eexists _, _, _. split; [reflexivity|exact Hcs].
Qed.

Lemma simple_after_grows : forall sorted c s1, simple_after sorted c = Some s1 -> incl sorted s1.
Proof.
  intros sorted c s1. unfold simple_after.
  destruct (is_none (cb_after c)); [intros [= <-]; apply incl_refl|].
  destruct (rindex sorted (cb_after c)) as [sidx|]; [|intros [= <-]; apply incl_refl].
  destruct (rindex sorted (cb_name c)) as [cidx|].
  - destruct (Nat.ltb cidx sidx); [discriminate|intros [= <-]; apply incl_refl].
  - intros [= <-]. apply incl_appl, incl_refl.
Qed.

Lemma simple_cb_grows : forall sorted c s', simple_cb sorted c = Some s' -> incl sorted s'.
Proof.
  intros sorted c s'. unfold simple_cb.
  destruct (simple_before sorted c) as [s1|] eqn:E1; [|discriminate].
  destruct (simple_after s1 c) as [s2|] eqn:E2; [|discriminate].
  intros [= <-]. eapply incl_tran; [eapply simple_before_grows; eauto|].
  eapply incl_tran; [eapply simple_after_grows; eauto|].
  unfold simple_finish. destruct (absent s2 (cb_name c)); [apply incl_appl|]; apply incl_refl.
Qed.

(* the loop over a suffix of cs *)
Lemma sort_loop_simple : forall S names post rest pre cs sorted f,
  cs = pre ++ rest ++ post -> (forall c, In c rest -> ready S names c) -> incl S sorted ->
  match simple_loop sorted rest with
  | Some s' => sort_loop (Datatypes.S f) names (mk_sst cs sorted) (length pre) (length rest) = Done (mk_sst cs s')
  | None => is_conflict cs (sort_loop (Datatypes.S f) names (mk_sst cs sorted) (length pre) (length rest))
  end.
Proof.
  intros S names post rest. induction rest as [|c rest IH]; intros pre cs sorted f Hcs HR HS; cbn [simple_loop sort_loop length].
  - reflexivity.
  - assert (Hc : nth_error cs (length pre) = Some c).
    { subst cs. rewrite nth_error_app2 by lia. now rewrite Nat.sub_diag. }
    pose proof (sort_cb_simple S names cs sorted c (length pre) f Hc (HR c (or_introl eq_refl)) HS) as H1.
    destruct (simple_cb sorted c) as [s1|] eqn:E1.
    + rewrite H1.
      assert (HS1 : incl S s1) by (eapply incl_tran; [exact HS|eapply simple_cb_grows; eauto]).
      specialize (IH (pre ++ [c]) cs s1 f).
      rewrite app_length in IH. cbn [length] in IH. rewrite Nat.add_1_r in IH.
      apply IH; auto.
      * subst cs. rewrite <- app_assoc. reflexivity.
      * intros x Hx. apply HR. right. exact Hx.
    + destruct H1 as (st & n & t & -> & Hst). eexists _, _, _. split; [reflexivity|exact Hst].
Qed.

Lemma simple_loop_app : forall a b sorted,
  simple_loop sorted (a ++ b) = match simple_loop sorted a with Some s => simple_loop s b | None => None end.
Proof.
  induction a as [|c a IH]; intros b sorted; cbn; [reflexivity|].
  destruct (simple_cb sorted c); [apply IH|reflexivity].
Qed.

Lemma sort_loop_app : forall n m fuel names st i,
  sort_loop fuel names st i (n + m) =
  match sort_loop fuel names st i n with
  | Done st' => sort_loop fuel names st' (i + n) m
  | e => e
  end.
Proof.
  induction n as [|n IH]; intros m fuel names st i; cbn [sort_loop Nat.add].
  - now rewrite Nat.add_0_r.
  - destruct (sort_cb fuel names st i); try reflexivity. rewrite IH. now rewrite Nat.add_succ_r.
Qed.

(* plain callbacks with distinct names are appended one after the other *)
Definition plain (c : cb) : Prop := cb_before c = "" /\ cb_after c = "".

Lemma simple_cb_plain : forall sorted c, plain c -> simple_cb sorted c = Some (simple_finish sorted (cb_name c)).
Proof. intros sorted c [A B]. unfold simple_cb, simple_before, simple_after. now rewrite A, B. Qed.

Lemma simple_loop_plain : forall B sorted,
  (forall b, In b B -> plain b) -> NoDup (map cb_name B) -> (forall b, In b B -> ~ In (cb_name b) sorted) ->
  simple_loop sorted B = Some (sorted ++ map cb_name B).
Proof.
  induction B as [|b B IH]; intros sorted HP HN HD; cbn [simple_loop map].
  - now rewrite app_nil_r.
  - rewrite simple_cb_plain by (apply HP; left; reflexivity).
    unfold simple_finish. assert (E : absent sorted (cb_name b) = true) by (apply absent_true, HD; left; reflexivity).
    rewrite E. cbn in HN. inversion HN as [|x l Hx Hl]; subst.
    rewrite IH.
    + now rewrite <- app_assoc.
    + intros x Hx'. apply HP. right. exact Hx'.
    + exact Hl.
    + intros x Hx' Hin. apply in_app_iff in Hin. destruct Hin as [Hin|[Hin|[]]].
      * apply (HD x); [right; exact Hx'|exact Hin].
      * apply Hx. rewrite Hin. apply in_map, Hx'.
Qed.

Lemma plain_ready : forall S names c, plain c -> ready S names c.
Proof.
  intros S names c [A B]. unfold ready, nostar, inert. rewrite A, B. cbn. repeat split; auto.
Qed.

(* ------------------------------------------------------------------ one compile in the plugin domain *)
(* cs = B ++ U : B the plain built-in originals (distinct names), every request in U inert w.r.t. them *)
Record simple_ok (B U : list cb) : Prop := {
  so_plain : forall b, In b B -> plain b;
  so_nodup : NoDup (map cb_name B);
  so_ready : forall c, In c U -> ready (map cb_name B) (map cb_name (B ++ U)) c
}.

Lemma simple_ok_nostar : forall B U, simple_ok B U -> forall c, In c (B ++ U) -> nostar c.
Proof.
  intros B U [HP _ HR] c Hc. apply in_app_iff in Hc. destruct Hc as [Hc|Hc].
  - destruct (HP c Hc) as [A B']. unfold nostar. now rewrite A, B'.
  - apply (HR c Hc).
Qed.

Lemma simple_sort_loop : forall B U f,
  simple_ok B U ->
  let cs := B ++ U in
  match simple_loop [] cs with
  | Some s => sort_loop (Datatypes.S f) (map cb_name cs) (mk_sst cs []) 0 (length cs) = Done (mk_sst cs s)
  | None => is_conflict cs (sort_loop (Datatypes.S f) (map cb_name cs) (mk_sst cs []) 0 (length cs))
  end.
Proof.
  intros B U f [HP HN HR]. cbn zeta.
  set (names := map cb_name (B ++ U)).
  rewrite app_length, sort_loop_app, simple_loop_app.
  pose proof (sort_loop_simple [] names U B [] (B ++ U) [] f eq_refl
               (fun c Hc => plain_ready [] names c (HP c Hc)) (incl_refl _)) as P1.
  rewrite (simple_loop_plain B [] HP HN (fun _ _ H => H)) in *. cbn [app length] in P1.
  rewrite P1. cbn [Nat.add app].
  exact (sort_loop_simple (map cb_name B) names [] U B (B ++ U) (map cb_name B) f
           (eq_sym (f_equal (app B) (app_nil_r U))) HR (incl_refl _)).
Qed.

Theorem simple_compile : forall B U,
  simple_ok B U ->
  match simple_loop [] (B ++ U) with
  | Some s => sort_callbacks (B ++ U) = SOk (B ++ U) (pick (B ++ U) (map cb_name (B ++ U)) s)
  | None => exists n t, sort_callbacks (B ++ U) = SErr (B ++ U) n t
  end.
Proof.
  intros B U OK.
  unfold sort_callbacks. rewrite (presort_nostar (B ++ U) (simple_ok_nostar B U OK)).
  assert (Hf : depth_fuel (B ++ U) = Datatypes.S (2 * length (B ++ U) + 1)) by (unfold depth_fuel; lia).
  rewrite Hf. pose proof (simple_sort_loop B U (2 * length (B ++ U) + 1) OK) as L. cbn zeta in L.
  destruct (simple_loop [] (B ++ U)) as [s|].
  - rewrite L. reflexivity.
  - destruct L as (st & n & t & -> & Hst). exists n, t. now rewrite Hst.
Qed.
