(* C13_Proofs.v — lemmas about the model of hook dispatch. *)
From Verif Require Import Base C13_Model.
Open Scope Z_scope.

Lemma hooks_phase_skip : forall c p s, c_skip c = true -> hooks_phase c p s = s.
Proof.
  intros c p s H. unfold hooks_phase. rewrite H. cbn [negb]. rewrite andb_false_r. reflexivity.
Qed.
