(* C13_Proofs.v — lemmas about the model of hook dispatch: one hook phase. *)
From Verif Require Import Base C13_Model.
Open Scope Z_scope.

Definition len {A} (l : list A) : Z := Z.of_nat (length l).

Lemma len_app {A} (a b : list A) : len (a ++ b) = len a + len b.
Proof. unfold len. rewrite app_length. lia. Qed.
Lemma len_nonneg {A} (a : list A) : 0 <= len a.
Proof. unfold len. lia. Qed.
Lemma len_cons {A} (x : A) (a : list A) : len (x :: a) = 1 + len a.
Proof. unfold len. cbn [length]. lia. Qed.

(* no failing invocation number in [lo, hi) *)
Definition no_fail (lo hi : Z) (fails : list Z) : bool :=
  negb (existsb (fun f => (lo <=? f) && (f <? hi)) fails).

Lemma no_fail_empty : forall lo fails, no_fail lo lo fails = true.
Proof.
  intros lo fails. unfold no_fail. induction fails as [|f r IH]; cbn; [reflexivity|].
  replace ((lo <=? f) && (f <? lo)) with false by (symmetry; apply andb_false_iff; lia).
  exact IH.
Qed.

Lemma no_fail_split : forall lo mid hi fails, lo <= mid -> mid <= hi ->
  no_fail lo hi fails = no_fail lo mid fails && no_fail mid hi fails.
Proof.
  intros lo mid hi fails H1 H2. unfold no_fail. induction fails as [|f r IH]; cbn; [reflexivity|].
  rewrite !negb_orb in *. rewrite IH.
  destruct (lo <=? f) eqn:A; destruct (f <? hi) eqn:B; destruct (f <? mid) eqn:C; destruct (mid <=? f) eqn:D;
    cbn; try lia; destruct (negb _); destruct (negb _); reflexivity.
Qed.

Lemma no_fail_one : forall k fails, no_fail k (k + 1) fails = negb (memz k fails).
Proof.
  intros k fails. unfold no_fail, memz. f_equal. induction fails as [|f r IH]; cbn; [reflexivity|].
  rewrite IH. f_equal. destruct (Z.eqb_spec k f); [subst; apply andb_true_iff; lia | apply andb_false_iff; lia].
Qed.

Lemma hooks_of_app : forall a b, hooks_of (a ++ b) = hooks_of a ++ hooks_of b.
Proof.
  induction a as [|e a IH]; intro b; cbn; [reflexivity|].
  destruct e; cbn; rewrite IH; reflexivity.
Qed.

Lemma is_nil_app_cons {A} (l : list A) (x : A) : is_nil (l ++ [x]) = false.
Proof. destruct l; reflexivity. Qed.

(* ---------------------------------------------------------------- record keys *)
Definition keys (s : S) : list (Z * bool) := map (fun r => (m_tag r, m_nil r)) (s_recs s).
Definition rkeys (l : list mrec) : list (Z * bool) := map (fun r => (m_tag r, m_nil r)) l.

Lemma set_nth_val_keys : forall l i v,
  map (fun r => (m_tag r, m_nil r)) (set_nth_val i v l) = map (fun r => (m_tag r, m_nil r)) l.
Proof.
  induction l as [|r l IH]; intros [|i] v; cbn; try reflexivity.
  f_equal. apply IH.
Qed.

(* a struct handed over by value is outside the theorems (SetColumn / callMethod answer ErrInvalidValue) *)
Definition wf_shape (sh : shape) : Prop :=
  match sh_cont sh with CStruct => sh_outer_ptr sh = true | _ => True end.

(* the frame of one step: everything but counter, error, trace, record values, payload *)
Definition same_frame (s s' : S) : Prop :=
  s_pool s' = s_pool s /\ s_ntx s' = s_ntx s /\ s_started s' = s_started s /\ s_tbl s' = s_tbl s
  /\ s_snap s' = s_snap s /\ keys s' = keys s.

Lemma same_frame_refl : forall s, same_frame s s.
Proof. intro s. repeat split. Qed.
Lemma same_frame_trans : forall a b c, same_frame a b -> same_frame b c -> same_frame a c.
Proof.
  intros a b c (A1 & A2 & A3 & A4 & A5 & A6) (B1 & B2 & B3 & B4 & B5 & B6).
  repeat split; congruence.
Qed.

Lemma set_rec_val_keys : forall c l i v,
  map (fun r => (m_tag r, m_nil r)) (set_rec_val c i v l) = map (fun r => (m_tag r, m_nil r)) l.
Proof.
  intros c l i v. unfold set_rec_val. destruct (x_setall (c_x c)); [|apply set_nth_val_keys].
  unfold set_all_val. rewrite map_map. reflexivity.
Qed.

Lemma set_column_frame : forall c i v s, wf_shape (c_shape c) ->
  let s' := set_column c i v s in
  same_frame s s' /\ s_k s' = s_k s /\ s_err s' = s_err s /\ s_tr s' = s_tr s.
Proof.
  intros c i v s W. unfold set_column, wf_shape in *.
  destruct (c_dest c); destruct (sh_cont (c_shape c)); try rewrite W; cbn -[set_nth_val set_rec_val];
    unfold same_frame, keys; cbn -[set_nth_val set_rec_val]; rewrite ?set_nth_val_keys, ?set_rec_val_keys; repeat split; reflexivity.
Qed.

(* ---------------------------------------------------------------- one invocation *)
Record step_ok (c : cx) (s s' : S) (evs : list hev) : Prop := mk_step_ok {
  so_frame : same_frame s s';
  so_hooks : hooks_of (s_tr s') = hooks_of (s_tr s) ++ evs;
  so_k : s_k s' = s_k s + len evs;
  so_err : is_nil (s_err s') = is_nil (s_err s) && no_fail (s_k s) (s_k s') (c_fails c)
}.

Lemma step_ok_refl : forall c s, step_ok c s s [].
Proof.
  intros c s. split.
  - apply same_frame_refl.
  - rewrite app_nil_r. reflexivity.
  - unfold len. cbn. lia.
  - rewrite no_fail_empty, andb_true_r. reflexivity.
Qed.

Lemma step_ok_trans : forall c s1 s2 s3 e1 e2,
  step_ok c s1 s2 e1 -> step_ok c s2 s3 e2 -> step_ok c s1 s3 (e1 ++ e2).
Proof.
  intros c s1 s2 s3 e1 e2 [F1 H1 K1 E1] [F2 H2 K2 E2]. split.
  - eapply same_frame_trans; eassumption.
  - rewrite H2, H1, app_assoc. reflexivity.
  - rewrite K2, K1, len_app. lia.
  - rewrite E2, E1. rewrite (no_fail_split (s_k s1) (s_k s2) (s_k s3)).
    + rewrite andb_assoc. reflexivity.
    + rewrite K1. pose proof (len_nonneg e1). lia.
    + rewrite K2. pose proof (len_nonneg e2). lia.
Qed.

Lemma invoke_ok : forall c h tag i s, wf_shape (c_shape c) ->
  step_ok c s (invoke c h tag i s) [(h, ty_id (c_ty c), tag)].
Proof.
  intros c h tag i s W. unfold invoke.
  set (s1 := set_k (s_k s + 1) (emit (THook h (ty_id (c_ty c)) tag (s_pool s)) s)).
  assert (B1 : same_frame s s1 /\ s_k s1 = s_k s + 1 /\ s_err s1 = s_err s
               /\ hooks_of (s_tr s1) = hooks_of (s_tr s) ++ [(h, ty_id (c_ty c), tag)]).
  { subst s1. cbn. rewrite hooks_of_app. cbn. repeat split. }
  destruct B1 as (F1 & K1 & E1 & H1).
  set (s2 := if (is_before_save_hook h || (x_setafter (c_x c) && is_after_write_hook h)) && memz (s_k s) (c_sets c) then set_column c i (1000 + s_k s) s1 else s1).
  assert (B2 : same_frame s s2 /\ s_k s2 = s_k s + 1 /\ s_err s2 = s_err s
               /\ hooks_of (s_tr s2) = hooks_of (s_tr s) ++ [(h, ty_id (c_ty c), tag)]).
  { subst s2. destruct ((is_before_save_hook h || (x_setafter (c_x c) && is_after_write_hook h)) && memz (s_k s) (c_sets c)).
    - destruct (set_column_frame c i (1000 + s_k s) s1 W) as (F & K & E & T).
      split; [exact (same_frame_trans _ _ _ F1 F)|].
      split; [congruence|]. split; [congruence|]. rewrite T. exact H1.
    - repeat split; assumption. }
  destruct B2 as (F2 & K2 & E2 & H2).
  destruct (memz (s_k s) (c_fails c)) eqn:M.
  - split.
    + destruct F2 as (A1 & A2 & A3 & A4 & A5 & A6). repeat split; cbn; assumption.
    + cbn. exact H2.
    + cbn. rewrite K2. unfold len. cbn. lia.
    + cbn. rewrite is_nil_app_cons. rewrite K2, no_fail_one, M. cbn. rewrite andb_false_r. reflexivity.
  - split; try assumption.
    rewrite K2, no_fail_one, M, E2. cbn. rewrite andb_true_r. reflexivity.
Qed.

(* ---------------------------------------------------------------- the closure *)
Definition evs_of (t : ty) (hs : list hook) (tag : Z) : list hev :=
  map (fun h => (h, ty_id t, tag)) (filter (flag t) hs).

Lemma in_mset_ptr : forall t h, flag t h && in_mset VPtr (recv_of t h) = flag t h.
Proof. intros t h. unfold flag. destruct (recv_of t h); reflexivity. Qed.

Lemma fc_ptr_ok : forall c hs tag i s, wf_shape (c_shape c) ->
  step_ok c s (snd (fc c hs VPtr tag i s)) (evs_of (c_ty c) hs tag)
  /\ fst (fc c hs VPtr tag i s) = negb (is_nil (filter (flag (c_ty c)) hs)).
Proof.
  intros c hs tag i s W. revert s. induction hs as [|h hs IH]; intro s.
  - cbn. split; [apply step_ok_refl | reflexivity].
  - cbn [fc]. rewrite in_mset_ptr. unfold evs_of. cbn [filter].
    destruct (flag (c_ty c) h) eqn:Fl.
    + cbn [fst snd map]. split; [|reflexivity].
      change ((h, ty_id (c_ty c), tag) :: map (fun h0 => (h0, ty_id (c_ty c), tag)) (filter (flag (c_ty c)) hs))
        with ([(h, ty_id (c_ty c), tag)] ++ evs_of (c_ty c) hs tag).
      eapply step_ok_trans; [apply invoke_ok; assumption | apply IH].
    + apply IH.
Qed.

(* the phase has no value-receiver hook: offering the T value calls nothing *)
Definition no_val (t : ty) (hs : list hook) : Prop :=
  forall h, In h hs -> recv_of t h <> RVal.
(* every declared hook of the phase is a value-receiver hook: offering the T value calls them all *)
Definition all_val (t : ty) (hs : list hook) : Prop :=
  forall h, In h hs -> recv_of t h <> RPtr.

Lemma fc_val_none : forall c hs tag i s, no_val (c_ty c) hs -> fc c hs VVal tag i s = (false, s).
Proof.
  intros c hs tag i s N. induction hs as [|h hs IH]; [reflexivity|].
  cbn [fc]. assert (A : flag (c_ty c) h && in_mset VVal (recv_of (c_ty c) h) = false).
  { specialize (N h (or_introl eq_refl)). unfold flag. destruct (recv_of (c_ty c) h); try reflexivity. congruence. }
  rewrite A. apply IH. intros h' Hin. apply N. right. exact Hin.
Qed.

Lemma fc_val_all : forall c hs tag i s, all_val (c_ty c) hs -> fc c hs VVal tag i s = fc c hs VPtr tag i s.
Proof.
  intros c hs tag i s A. revert s. induction hs as [|h hs IH]; intro s; [reflexivity|].
  cbn [fc].
  assert (E : in_mset VVal (recv_of (c_ty c) h) = in_mset VPtr (recv_of (c_ty c) h) \/ flag (c_ty c) h = false).
  { specialize (A h (or_introl eq_refl)). unfold flag. destruct (recv_of (c_ty c) h) eqn:R; auto; congruence. }
  assert (A' : all_val (c_ty c) hs) by (intros h' Hin; apply A; right; exact Hin).
  destruct E as [E|E].
  - rewrite E. destruct (flag (c_ty c) h && in_mset VPtr (recv_of (c_ty c) h)).
    + rewrite IH by exact A'. reflexivity.
    + apply IH. exact A'.
  - rewrite E. cbn. apply IH. exact A'.
Qed.

(* ---------------------------------------------------------------- the loop *)
Definition phase_events (t : ty) (hs : list hook) (tags : list Z) : list hev :=
  flat_map (evs_of t hs) tags.

Lemma loop_ok : forall c hs recs i s, wf_shape (c_shape c) ->
  forallb (elem_addr (c_shape c)) recs = true ->
  step_ok c s (loop c hs recs i s) (phase_events (c_ty c) hs (map m_tag recs)).
Proof.
  intros c hs recs. induction recs as [|r rs IH]; intros i s W A.
  - cbn. apply step_ok_refl.
  - cbn in A. apply andb_prop in A. destruct A as [A1 A2].
    cbn [loop]. rewrite A1. cbn [map phase_events flat_map].
    eapply step_ok_trans; [apply fc_ptr_ok; assumption | apply IH; assumption].
Qed.

(* ---------------------------------------------------------------- callMethod *)
Definition addressable (sh : shape) (recs : list mrec) : Prop :=
  wf_shape sh /\ forallb (elem_addr sh) recs = true
  /\ match sh_cont sh with CStruct => exists r, recs = [r] | _ => True end.

(* the exact condition under which the struct-value shortcut of callMethod is harmless *)
Definition uniform_phase (sh : shape) (t : ty) (hs : list hook) : Prop :=
  match sh_cont sh with CStruct => no_val t hs \/ all_val t hs | _ => True end.

Lemma call_method_ok : forall c hs s,
  addressable (c_shape c) (s_recs s) -> uniform_phase (c_shape c) (c_ty c) hs ->
  step_ok c s (call_method c hs s) (phase_events (c_ty c) hs (map m_tag (s_recs s))).
Proof.
  intros c hs s (W & A & St) U. unfold call_method, uniform_phase in *.
  destruct (sh_cont (c_shape c)) eqn:C.
  - destruct St as [r ->]. cbn [map phase_events flat_map]. rewrite app_nil_r.
    unfold wf_shape in W. rewrite C in W.
    destruct U as [N|V].
    + rewrite fc_val_none by exact N. rewrite W.
      apply fc_ptr_ok. unfold wf_shape. rewrite C. exact W.
    + rewrite fc_val_all by exact V.
      destruct (fc_ptr_ok c hs (m_tag r) 0%nat s) as [OK CALLED]. { unfold wf_shape. rewrite C. exact W. }
      destruct (fc c hs VPtr (m_tag r) 0 s) as [called s1] eqn:F. cbn [fst snd] in *.
      destruct called.
      * exact OK.
      * rewrite W. exact OK.
  - apply loop_ok; assumption.
  - apply loop_ok; assumption.
Qed.

(* ---------------------------------------------------------------- a hook phase *)
Definition phase_log (c : cx) (p : phase) (s : S) : list hev :=
  if is_nil (s_err s) && negb (c_skip c) then phase_events (c_ty c) (fc_hooks p) (map m_tag (s_recs s)) else [].

Lemma phase_events_no_flag : forall t hs tags, existsb (flag t) hs = false -> phase_events t hs tags = [].
Proof.
  intros t hs tags E. unfold phase_events, evs_of.
  assert (F : filter (flag t) hs = []).
  { induction hs as [|h hs IH]; [reflexivity|]. cbn in *. apply orb_false_iff in E. destruct E as [E1 E2].
    rewrite E1. apply IH. exact E2. }
  rewrite F. cbn. induction tags; [reflexivity|]. cbn. assumption.
Qed.

Lemma hooks_phase_ok : forall c p s,
  addressable (c_shape c) (s_recs s) -> uniform_phase (c_shape c) (c_ty c) (fc_hooks p) ->
  step_ok c s (hooks_phase c p s) (phase_log c p s).
Proof.
  intros c p s A U. unfold hooks_phase, phase_log.
  destruct (is_nil (s_err s)) eqn:E; cbn [andb]; [|apply step_ok_refl].
  destruct (c_skip c); cbn [negb andb]; [apply step_ok_refl|].
  destruct (existsb (flag (c_ty c)) (fc_hooks p)) eqn:G; cbn [andb].
  - destruct p; cbn [andb]; try (apply call_method_ok; assumption).
    destruct (s_recs s) eqn:R; cbn [is_nil negb].
    + cbn. apply step_ok_refl.
    + rewrite <- R in *. apply call_method_ok; assumption.
  - rewrite phase_events_no_flag by exact G. apply step_ok_refl.
Qed.

Lemma hooks_phase_skip : forall c p s, c_skip c = true -> hooks_phase c p s = s.
Proof.
  intros c p s H. unfold hooks_phase. rewrite H. cbn [negb]. rewrite andb_false_r. reflexivity.
Qed.
