(* C17_CheckK.v — the checker the cases files use: C17_Check.check_case, plus the comparison of the
   known-finding signature computed by the harness (Go twin, harness/cmd/c17/ref.go) with
   C17_Known: a disagreement counts as a broken tie. *)
From Verif Require Export Base C17_Model C17_Check C17_Known C17_BackDef.
Open Scope Z_scope.

Definition kcode (k : kclass) : Z :=
  match k with
  | KNone => 0 | KSelfTarget => 1 | KNamedCycle => 2 | KStarUnsat => 3
  | KStarReplace => 4 | KAfterOverwritten => 5 | KSelfSilent => 6 | KStaleRequest => 7
  end.

(* class of the first in-domain call that puts the book into a known-finding class AFTER the history has
   left the backward domain (C17_BackDef: F = targets named so far, bk = the calls so far are backward).
   While the history is backward the whole property is proved on the model (c17_backward_domain_correct):
   a failure there is never excused by a class, whatever the input-only class predicates say (stale_request
   over-approximates on Register(a); Before(a).Register(b); Remove(b); Register(b)). *)
(* the label KStarReplace (a "*" callback has been replaced: fixed by /repo e28c215, not a known finding) must
   not hide a class that is still known: After("*").Register(x); Replace(x); Before(x).Register(y) is a member
   of after-overwritten - the write cs[idx].after = y lands in x's replacement, which loses its "*" request, is
   moved in front of the original by the next pre-sort, and the ORIGINAL's handler runs again *)
Definition class_k (r : rstate) : kclass :=
  match class_of r with
  | KStarReplace =>
    let live := r_live r in
    if after_overwritten live then KAfterOverwritten
    else if stale_request r then KStaleRequest
    else if self_target live then KSelfTarget
    else if cyclic (map e_name live) (builtin_chain None live ++ named_edges live) then KNamedCycle
    else KStarReplace
  | k => k
  end.
Definition is_known_k (r : rstate) : bool :=
  match class_k r with KNone | KSelfTarget | KStarReplace => false | _ => true end.

Fixpoint first_known_from (F : list string) (bk : bool) (r : rstate) (i : N) (h : list step) : kclass :=
  match h with
  | [] => KNone
  | s :: h' =>
    let r' := ref_apply r i s in
    let bk' := bk && ok_step_b F s in
    if r_dom r' then (if is_known_k r' && negb bk' then class_k r' else first_known_from (tgts s ++ F) bk' r' (N.succ i) h')
    else KNone
  end.
Definition first_known (r : rstate) (i : N) (h : list step) : kclass := first_known_from [] true r i h.

(* processor.Get(name): the handler of the last callback of that name that is not a Remove marker *)
Fixpoint get_model (cs : list cb) (n : string) : option N :=
  match cs with
  | [] => None
  | c :: r => match get_model r n with
              | Some h => Some h
              | None => if String.eqb (cb_name c) n && negb (cb_remove c) then Some (cb_hid c) else None
              end
  end.

(* the processor after the whole history *)
Fixpoint final_from (p : proc) (hid : N) (h : list step) : proc :=
  match h with
  | [] => p
  | s :: r => match run_step p s hid with
              | (Some p', _) => final_from p' (N.succ hid) r
              | (None, _) => p
              end
  end.

(* k_gets: after the last call, Get(name) for every name of the history: (name index, call whose handler
   it is, or -1 for nil) *)
Record case := mk_case { k_case : C17_Check.case; k_sig : Z; k_gets : list (Z * Z) }.

Definition gets_agree (c : case) : bool :=
  let p := final_from (mk_proc [] []) 0%N (c_steps (k_case c)) in
  forallb (fun g => match get_model (p_cs p) (name_of (w_names (k_case c)) (fst g)) with
                    | Some h => Z.of_N h =? snd g
                    | None => snd g =? -1
                    end) (k_gets c).


Definition sig_agrees (c : case) : bool :=
  kcode (first_known r0 0%N (c_steps (k_case c))) =? k_sig c.

(* ------------------------------------------------------------------ "exactly once" for EVERY history
   The clause "runs every registered, non-removed callback exactly once" does not need the domain of
   C17_Check (fresh names, Replace/Remove of live names only): whatever is called, a name is registered
   after a matched Register/Replace of it and until a Remove of it, and a nil answer must fire each
   registered name exactly once (which handler runs under a name registered twice is not judged). *)
Definition wide_apply (live : list string) (s : step) : list string :=
  match st_kind s with
  | KRemove => filter (fun m => negb (String.eqb (st_name s) m)) live
  | _ => if st_matched s && negb (mem live (st_name s)) then live ++ [st_name s] else live
  end.

Definition wide_once_ok (live : list string) (f : list (string * N)) : bool :=
  nodupb (map fst f) && forallb (fun x => mem live (fst x)) f && forallb (fun n => mem (map fst f) n) live.

Fixpoint wide_once (live : list string) (skip : nat) (h : list step) (os : list obs) : bool :=
  match h with
  | [] => true
  | s :: h' =>
    let live' := wide_apply live s in
    match skip with
    | S k => wide_once live' k h' os
    | O => match os with
           | [] => true
           | o :: os' => match o with OOk f => wide_once_ok live' f | _ => true end
                         && wide_once live' O h' os'
           end
    end
  end.

Definition wide_holds (c : case) : bool :=
  wide_once [] (c_skip (k_case c)) (c_steps (k_case c)) (c_obs (k_case c)).

(* model = implementation, also beyond 20 compiled callbacks when no request is "*": the comparator of the
   pre-sort is then constantly false (C17_Plugin.less_cb_nostar), so the insertion sort of the model and any
   stable sort - sort.SliceStable's merge path included - leave the slice as it is (presort_nostar).  With a
   "*" request and more than 20 calls the comparison is skipped as before (C17_Check.model_agrees). *)
Definition nostar_hist (h : list step) : bool :=
  forallb (fun s => negb (is_star (st_before s)) && negb (is_star (st_after s))) h.
Definition model_agrees_k (c : C17_Check.case) : bool :=
  (Nat.ltb max_callbacks (length (c_steps c)) && negb (nostar_hist (c_steps c)))
  || list_eqb obs_eqb (c_obs c) (skipn (c_skip c) (run (c_steps c))).

Definition check_case (c : case) : N :=
  code_of (model_agrees_k (k_case c) && sig_agrees c && gets_agree c)
          (spec_holds (k_case c) && wide_holds c).
