(* C17_CheckK.v — the checker the cases files use: C17_Check.check_case, plus the comparison of the
   known-finding signature computed by the harness (Go twin, harness/cmd/c17/ref.go) with
   C17_Known: a disagreement counts as a broken tie. *)
From Verif Require Export Base C17_Model C17_Check C17_Known.
Open Scope Z_scope.

Definition kcode (k : kclass) : Z :=
  match k with
  | KNone => 0 | KSelfTarget => 1 | KNamedCycle => 2 | KStarUnsat => 3
  | KStarReplace => 4 | KAfterOverwritten => 5 | KSelfSilent => 6 | KStaleRequest => 7
  end.

(* class of the first in-domain call that puts the book into a known-finding class *)
Fixpoint first_known (r : rstate) (i : N) (h : list step) : kclass :=
  match h with
  | [] => KNone
  | s :: h' =>
    let r' := ref_apply r i s in
    if r_dom r' then (if is_known r' then class_of r' else first_known r' (N.succ i) h') else KNone
  end.

(* processor.Get(name): the handler of the last callback of that name that is not a Remove marker *)
Fixpoint get_model (cs : list cb) (n : string) : option N :=
  match cs with
  | [] => None
  | c :: r => match get_model r n with
              | Some h => Some h
              | None => if String.eqb (cb_name c) n && negb (cb_remove c) then Some (cb_hid c) else None
              end
  end.

(* the processor after the whole history *)
Fixpoint final_from (p : proc) (hid : N) (h : list step) : proc :=
  match h with
  | [] => p
  | s :: r => match run_step p s hid with
              | (Some p', _) => final_from p' (N.succ hid) r
              | (None, _) => p
              end
  end.

(* k_gets: after the last call, Get(name) for every name of the history: (name index, call whose handler
   it is, or -1 for nil) *)
Record case := mk_case { k_case : C17_Check.case; k_sig : Z; k_gets : list (Z * Z) }.

Definition gets_agree (c : case) : bool :=
  let p := final_from (mk_proc [] []) 0%N (c_steps (k_case c)) in
  forallb (fun g => match get_model (p_cs p) (name_of (w_names (k_case c)) (fst g)) with
                    | Some h => Z.of_N h =? snd g
                    | None => snd g =? -1
                    end) (k_gets c).


Definition sig_agrees (c : case) : bool :=
  kcode (first_known r0 0%N (c_steps (k_case c))) =? k_sig c.

Definition check_case (c : case) : N :=
  code_of (model_agrees (k_case c) && sig_agrees c && gets_agree c) (spec_holds (k_case c)).
