(* C17_CheckK.v — the checker the cases files use: C17_Check.check_case, plus the comparison of the
   known-finding signature computed by the harness (Go twin, harness/cmd/c17/ref.go) with
   C17_Known: a disagreement counts as a broken tie. *)
From Verif Require Export Base C17_Model C17_Check C17_Known.
Open Scope Z_scope.

Definition kcode (k : kclass) : Z :=
  match k with
  | KNone => 0 | KSelfTarget => 1 | KNamedCycle => 2 | KStarUnsat => 3
  | KStarReplace => 4 | KAfterOverwritten => 5 | KSelfSilent => 6 | KStaleRequest => 7
  end.

(* class of the first in-domain call that puts the book into a known-finding class *)
Fixpoint first_known (r : rstate) (i : N) (h : list step) : kclass :=
  match h with
  | [] => KNone
  | s :: h' =>
    let r' := ref_apply r i s in
    if r_dom r' then (if is_known r' then class_of r' else first_known r' (N.succ i) h') else KNone
  end.

Record case := mk_case { k_case : C17_Check.case; k_sig : Z }.

Definition sig_agrees (c : case) : bool :=
  kcode (first_known r0 0%N (c_steps (k_case c))) =? k_sig c.

Definition check_case (c : case) : N :=
  code_of (model_agrees (k_case c) && sig_agrees c) (spec_holds (k_case c)).
