(* C15_Proofs.v — lemmas about C15_Model. *)
From Verif Require Import Base C15_Model.
From Coq Require Import Sorting.Sorted.
Open Scope Z_scope.

(* ---------------- limit_merge rules ---------------- *)

Lemma merge_limit_override st n :
  0 < n -> lim (st_of (apply_lop st (OLimit n))) = Some n.
Proof.
  intros Hn. destruct st as [old|]; cbn; [|reflexivity].
  destruct n; try lia. reflexivity.
Qed.

Lemma merge_limit_cancel st n :
  n < 0 -> eff_lim (st_of (apply_lop st (OLimit n))) = None.
Proof.
  intros Hn. destruct st as [old|]; cbn; destruct n; try lia; reflexivity.
Qed.

Lemma merge_limit_keeps_offset st n :
  eff_off (st_of (apply_lop st (OLimit n))) = eff_off (st_of st).
Proof.
  destruct st as [old|]; cbn; [|reflexivity].
  unfold eff_off; cbn. destruct (0 <? off old) eqn:E; cbn; rewrite ?E; reflexivity.
Qed.

Lemma merge_offset_override st n :
  0 < n -> eff_off (st_of (apply_lop st (OOffset n))) = n.
Proof.
  intros Hn. destruct st as [old|]; unfold eff_off; cbn.
  - replace (n =? 0) with false by (symmetry; apply Z.eqb_neq; lia). cbn.
    replace (n <? 0) with false by (symmetry; apply Z.ltb_ge; lia).
    replace (0 <? n) with true by (symmetry; apply Z.ltb_lt; lia). reflexivity.
  - replace (0 <? n) with true by (symmetry; apply Z.ltb_lt; lia). reflexivity.
Qed.

Lemma merge_offset_cancel st n :
  n < 0 -> eff_off (st_of (apply_lop st (OOffset n))) = 0.
Proof.
  intros Hn. destruct st as [old|]; unfold eff_off; cbn.
  - replace (n =? 0) with false by (symmetry; apply Z.eqb_neq; lia). cbn.
    replace (n <? 0) with true by (symmetry; apply Z.ltb_lt; lia). reflexivity.
  - replace (0 <? n) with false by (symmetry; apply Z.ltb_ge; lia). reflexivity.
Qed.

Lemma merge_offset_keeps_limit st n :
  eff_lim (st_of (apply_lop st (OOffset n))) = eff_lim (st_of st).
Proof.
  destruct st as [old|]; cbn; [|reflexivity].
  unfold eff_lim; cbn. destruct (lim old); reflexivity.
Qed.

Lemma apply_lops_snoc ops o : apply_lops (ops ++ [o]) = apply_lop (apply_lops ops) o.
Proof. unfold apply_lops. rewrite fold_left_app. reflexivity. Qed.

Lemma lim_is_reference ops : nz (last_lim ops) = true ->
  eff_lim (st_of (apply_lops ops)) = ref_lim ops.
Proof.
  induction ops as [|o ops IH] using rev_ind; intros Hnz; [reflexivity|].
  rewrite apply_lops_snoc. unfold ref_lim, last_lim in *. rewrite !fold_left_app in *. cbn [fold_left] in *.
  destruct o as [n|n].
  - cbn in Hnz. apply negb_true_iff, Z.eqb_neq in Hnz.
    destruct (0 <? n) eqn:E; [apply Z.ltb_lt in E | apply Z.ltb_ge in E].
    + unfold eff_lim. rewrite merge_limit_override by lia.
      replace (0 <=? n) with true by (symmetry; apply Z.leb_le; lia). reflexivity.
    + apply merge_limit_cancel. lia.
  - rewrite merge_offset_keeps_limit. apply IH. exact Hnz.
Qed.

Lemma off_is_reference ops : nz (last_off ops) = true ->
  eff_off (st_of (apply_lops ops)) = ref_off ops.
Proof.
  induction ops as [|o ops IH] using rev_ind; intros Hnz; [reflexivity|].
  rewrite apply_lops_snoc. unfold ref_off, last_off in *. rewrite !fold_left_app in *. cbn [fold_left] in *.
  destruct o as [n|n].
  - rewrite merge_limit_keeps_offset. apply IH. exact Hnz.
  - cbn in Hnz. apply negb_true_iff, Z.eqb_neq in Hnz.
    destruct (0 <? n) eqn:E; [apply Z.ltb_lt in E | apply Z.ltb_ge in E].
    + apply merge_offset_override. lia.
    + apply merge_offset_cancel. lia.
Qed.

Lemma merge_is_reference ops : last_nonzero ops = true ->
  eff_lim (st_of (apply_lops ops)) = ref_lim ops /\ eff_off (st_of (apply_lops ops)) = ref_off ops.
Proof.
  unfold last_nonzero. intros H. apply andb_prop in H. destruct H as [Hl Ho].
  split; [apply lim_is_reference | apply off_is_reference]; assumption.
Qed.

Lemma nonzero_last ops : nonzero_ops ops = true -> last_nonzero ops = true.
Proof.
  unfold nonzero_ops, last_nonzero, last_lim, last_off.
  induction ops as [|o ops IH] using rev_ind; intros H; [reflexivity|].
  rewrite forallb_app in H. apply andb_prop in H. destruct H as [H Ho]. cbn in Ho. rewrite andb_true_r in Ho.
  specialize (IH H). apply andb_prop in IH. destruct IH as [IHl IHo].
  rewrite !fold_left_app. cbn [fold_left]. destruct o as [n|n]; cbn [nz]; rewrite ?Ho, ?IHl, ?IHo; reflexivity.
Qed.

Lemma window_ext {A} s1 s2 (l : list A) :
  eff_lim s1 = eff_lim s2 -> eff_off s1 = eff_off s2 -> window s1 l = window s2 l.
Proof. unfold window. intros -> ->. reflexivity. Qed.

Lemma find_is_reference tbl c o ops : last_nonzero ops = true ->
  find tbl c o (st_of (apply_lops ops)) =
  let after := skipn (Z.to_nat (ref_off ops)) (ordered o (matches c tbl)) in
  match ref_lim ops with Some n => firstn (Z.to_nat n) after | None => after end.
Proof.
  intros H. destruct (merge_is_reference ops H) as [Hl Ho]. unfold find, window.
  rewrite Hl, Ho. reflexivity.
Qed.

(* ---------------- sortedness and the key cursor ---------------- *)

Definition sorted (ms : list row) : Prop := StronglySorted (fun a b => rid a < rid b) ms.

Lemma sorted_app_inv a b : sorted (a ++ b) ->
  sorted a /\ sorted b /\ (forall x y, In x a -> In y b -> rid x < rid y).
Proof.
  induction a as [|h a IH]; cbn; intros H.
  - repeat split; [constructor | exact H | intros x y []].
  - inversion H as [|? ? Hs Hf]; subst. destruct (IH Hs) as [Sa [Sb Hab]].
    rewrite Forall_forall in Hf. repeat split.
    + constructor; [exact Sa|]. rewrite Forall_forall. intros x Hx. apply Hf, in_or_app; auto.
    + exact Sb.
    + intros x y [->|Hx] Hy; [apply Hf, in_or_app; auto | auto].
Qed.

Lemma filter_all {A} (f : A -> bool) l : (forall x, In x l -> f x = true) -> filter f l = l.
Proof.
  induction l as [|h l IH]; cbn; intros H; [reflexivity|].
  rewrite (H h (or_introl eq_refl)). f_equal. apply IH; intros; apply H; auto.
Qed.
Lemma filter_none {A} (f : A -> bool) l : (forall x, In x l -> f x = false) -> filter f l = [].
Proof.
  induction l as [|h l IH]; cbn; intros H; [reflexivity|].
  rewrite (H h (or_introl eq_refl)). apply IH; intros; apply H; auto.
Qed.

Lemma last_id_in res k : last_id res = Some k -> exists r, In r res /\ rid r = k /\
   forall pre', sorted (pre' ++ res) -> forall x, In x (pre' ++ res) -> rid x <= k.
Proof.
  unfold last_id. intros H. destruct (rev res) as [|r t] eqn:E; [discriminate|].
  inversion H; subst. assert (Hres : res = rev t ++ [r]).
  { rewrite <- (rev_involutive res), E. reflexivity. }
  exists r. split; [rewrite Hres; apply in_or_app; right; left; reflexivity|]. split; [reflexivity|].
  intros pre' Hs x Hx. rewrite Hres, app_assoc in Hs, Hx.
  apply sorted_app_inv in Hs. destruct Hs as [_ [_ Hlt]].
  apply in_app_or in Hx. destruct Hx as [Hx|[->|[]]]; [|lia].
  specialize (Hlt x r Hx (or_introl eq_refl)). lia.
Qed.

Lemma last_id_nonempty res : res <> [] -> exists k, last_id res = Some k.
Proof.
  unfold last_id. intros H. destruct (rev res) as [|r t] eqn:E; [|eauto].
  exfalso. apply H. rewrite <- (rev_involutive res), E. reflexivity.
Qed.

(* after a batch [res] the cursor condition selects exactly what follows it *)
Lemma filter_after pre res rest k :
  sorted (pre ++ res ++ rest) -> last_id res = Some k ->
  filter (gt_cursor (Some k)) (pre ++ res ++ rest) = rest.
Proof.
  intros Hs Hk. rewrite app_assoc in *. rewrite filter_app.
  destruct (last_id_in _ _ Hk) as [r [Hr [Hrk Hle]]].
  pose proof (sorted_app_inv _ _ Hs) as [S1 [S2 Hlt]].
  rewrite filter_none, filter_all; [reflexivity| |].
  - intros x Hx. cbn. apply Z.ltb_lt. rewrite <- Hrk. apply Hlt; [|exact Hx].
    apply in_or_app; right; exact Hr.
  - intros x Hx. cbn. apply Z.ltb_ge. apply (Hle pre S1 x Hx).
Qed.

(* ---------------- the query of one iteration ---------------- *)

Lemma window_qs {A} q bs (l : list A) : 0 < bs ->
  window (limit_merge {| lim := Some bs; off := 0 |} q) l
  = firstn (Z.to_nat bs) (skipn (Z.to_nat (eff_off q)) l).
Proof.
  intros Hb. destruct bs as [|p|p]; try lia.
  unfold window, limit_merge, eff_lim, eff_off; cbn.
  destruct (0 <? off q) eqn:E1; cbn; rewrite ?E1; reflexivity.
Qed.

Lemma emit_ne res : res <> [] -> emit res = [res].
Proof. destruct res; [congruence|reflexivity]. Qed.
Lemma emit_concat res : List.concat (emit res) = res.
Proof. destruct res; cbn; rewrite ?app_nil_r; reflexivity. Qed.
Lemma emit_forall (P : list row -> Prop) res : (res <> [] -> P res) -> Forall P (emit res).
Proof. destruct res; cbn; intros H; constructor; [apply H; discriminate|constructor]. Qed.

Definition batch_ok (bs : Z) (b : list row) : Prop := b <> [] /\ Z.of_nat (length b) <= bs.

Lemma firstn_skipn_split {A} n (l : list A) : l = firstn n l ++ skipn n l.
Proof. symmetry; apply firstn_skipn. Qed.

Lemma length_firstn_lt {A} n (l : list A) :
  (length (firstn n l) < n)%nat -> firstn n l = l.
Proof.
  intros H. rewrite firstn_length in H. apply firstn_all2. lia.
Qed.

(* ---------------- the loop, without a limit (total <= 0) ---------------- *)

Lemma loop_nolimit : forall fuel ms pre R q tx cur bs total rows batch,
  sorted ms -> ms = pre ++ R -> filter (gt_cursor cur) ms = R ->
  eff_off tx = 0 -> 0 < bs -> total <= 0 ->
  (length (skipn (Z.to_nat (eff_off q)) R) < fuel)%nat ->
  exists bl, fib_loop fuel ms q tx cur bs total rows batch = Some bl
             /\ List.concat bl = skipn (Z.to_nat (eff_off q)) R
             /\ Forall (batch_ok bs) bl.
Proof.
  induction fuel as [|fuel IH]; intros ms pre R q tx cur bs total rows batch
    Hs Hms Hf Htx Hbs Htot Hfuel; [lia|].
  cbn [fib_loop]. rewrite Hf, window_qs by exact Hbs.
  remember (skipn (Z.to_nat (eff_off q)) R) as T eqn:HT.
  remember (firstn (Z.to_nat bs) T) as res eqn:Hres.
  assert (Hlr : length res = Nat.min (Z.to_nat bs) (length T)) by (subst res; apply firstn_length).
  replace (0 <? total) with false by (symmetry; apply Z.ltb_ge; lia). cbn [andb].
  destruct (Z.of_nat (length res) <? bs) eqn:Elt.
  - (* short batch: stop *)
    apply Z.ltb_lt in Elt.
    assert (HresT : res = T) by (subst res; apply firstn_all2; lia).
    exists (emit res). split; [reflexivity|]. split.
    + rewrite emit_concat. exact HresT.
    + apply emit_forall. intros Hne. split; [exact Hne|lia].
  - apply Z.ltb_ge in Elt.
    assert (Hlen : length res = Z.to_nat bs) by lia.
    assert (Hne : res <> []) by (intro E; rewrite E in Hlen; cbn in Hlen; lia).
    destruct (last_id_nonempty res Hne) as [k Hk]. rewrite Hk.
    assert (HTs : T = res ++ skipn (Z.to_nat bs) T) by (subst res; symmetry; apply firstn_skipn).
    assert (HR : R = firstn (Z.to_nat (eff_off q)) R ++ res ++ skipn (Z.to_nat bs) T).
    { rewrite <- HTs, HT. symmetry; apply firstn_skipn. }
    assert (Hms' : ms = (pre ++ firstn (Z.to_nat (eff_off q)) R) ++ res ++ skipn (Z.to_nat bs) T).
    { rewrite <- app_assoc, <- HR. exact Hms. }
    assert (Hf' : filter (gt_cursor (Some k)) ms = skipn (Z.to_nat bs) T).
    { rewrite Hms' at 1. apply filter_after; [rewrite <- Hms'; exact Hs | exact Hk]. }
    destruct (IH ms ((pre ++ firstn (Z.to_nat (eff_off q)) R) ++ res) (skipn (Z.to_nat bs) T)
                 tx tx (Some k) bs total (rows + Z.of_nat (length res)) (batch + 1))
      as [bl [Hbl [Hc Hok]]]; try assumption.
    + rewrite <- app_assoc. exact Hms'.
    + rewrite Htx. cbn [Z.to_nat skipn]. rewrite skipn_length. lia.
    + rewrite Hbl. exists (emit res ++ bl).
      split; [reflexivity|]. rewrite Htx in Hc. cbn [Z.to_nat skipn] in Hc. split.
      * rewrite concat_app, emit_concat, Hc. symmetry; exact HTs.
      * apply Forall_app; split; [|exact Hok]. apply emit_forall. intros _. split; [exact Hne|lia].
Qed.

(* ---------------- the loop, with a limit (total > 0) ---------------- *)

Lemma firstn_split_add {A} a b (l : list A) :
  firstn (a + b) l = firstn a l ++ firstn b (skipn a l).
Proof.
  revert l; induction a as [|a IH]; intros l; cbn; [reflexivity|].
  destruct l; cbn; [rewrite firstn_nil; reflexivity|]. f_equal. apply IH.
Qed.

Definition batches_ok (bs : Z) (bl : list (list row)) : Prop :=
  Forall (fun b => exists bs', bs' <= bs /\ batch_ok bs' b) bl.

Lemma loop_limit : forall fuel ms pre R q tx cur bs total rows batch,
  sorted ms -> ms = pre ++ R -> filter (gt_cursor cur) ms = R ->
  eff_off tx = 0 -> 0 < bs -> 0 < total -> 0 <= rows -> 0 <= batch ->
  rows + bs <= total ->
  (rows = batch * bs \/ rows + bs = total) ->
  (length (skipn (Z.to_nat (eff_off q)) R) < fuel)%nat ->
  exists bl, fib_loop fuel ms q tx cur bs total rows batch = Some bl
             /\ List.concat bl = firstn (Z.to_nat (total - rows)) (skipn (Z.to_nat (eff_off q)) R)
             /\ batches_ok bs bl.
Proof.
  induction fuel as [|fuel IH]; intros ms pre R q tx cur bs total rows batch
    Hs Hms Hf Htx Hbs Htot Hrows Hbatch Hle Hinv Hfuel; [lia|].
  cbn [fib_loop]. rewrite Hf, window_qs by exact Hbs.
  remember (skipn (Z.to_nat (eff_off q)) R) as T eqn:HT.
  remember (firstn (Z.to_nat bs) T) as res eqn:Hres.
  assert (Hlr : length res = Nat.min (Z.to_nat bs) (length T)) by (subst res; apply firstn_length).
  replace (0 <? total) with true by (symmetry; apply Z.ltb_lt; lia). cbn [andb].
  assert (Hsplit : firstn (Z.to_nat (total - rows)) T
                   = res ++ firstn (Z.to_nat (total - rows - bs)) (skipn (Z.to_nat bs) T)).
  { replace (Z.to_nat (total - rows)) with (Z.to_nat bs + Z.to_nat (total - rows - bs))%nat by lia.
    subst res. apply firstn_split_add. }
  destruct (Z.of_nat (length res) <? bs) eqn:Elt.
  - apply Z.ltb_lt in Elt.
    assert (HresT : res = T) by (subst res; apply firstn_all2; lia).
    exists (emit res). split; [reflexivity|]. split.
    + rewrite emit_concat, Hsplit. rewrite skipn_all2 by lia. rewrite firstn_nil, app_nil_r. reflexivity.
    + apply emit_forall. intros Hne. exists bs. split; [lia|]. split; [exact Hne|lia].
  - apply Z.ltb_ge in Elt.
    assert (Hlen : length res = Z.to_nat bs) by lia.
    assert (Hne : res <> []) by (intro E; rewrite E in Hlen; cbn in Hlen; lia).
    replace (Z.of_nat (length res)) with bs by lia.
    destruct (total <=? rows + bs) eqn:Estop.
    + (* limit reached: stop *)
      apply Z.leb_le in Estop.
      exists (emit res). split; [reflexivity|]. split.
      * rewrite emit_concat, Hsplit. replace (Z.to_nat (total - rows - bs)) with 0%nat by lia.
        cbn [firstn]. rewrite app_nil_r. reflexivity.
      * apply emit_forall. intros _. exists bs. split; [lia|]. split; [exact Hne|lia].
    + apply Z.leb_gt in Estop.
      destruct Hinv as [Hinv|Hinv]; [|lia].
      destruct (last_id_nonempty res Hne) as [k Hk]. rewrite Hk.
      assert (HTs : T = res ++ skipn (Z.to_nat bs) T) by (subst res; symmetry; apply firstn_skipn).
      assert (HR : R = firstn (Z.to_nat (eff_off q)) R ++ res ++ skipn (Z.to_nat bs) T).
      { rewrite <- HTs, HT. symmetry; apply firstn_skipn. }
      assert (Hms' : ms = (pre ++ firstn (Z.to_nat (eff_off q)) R) ++ res ++ skipn (Z.to_nat bs) T).
      { rewrite <- app_assoc, <- HR. exact Hms. }
      assert (Hf' : filter (gt_cursor (Some k)) ms = skipn (Z.to_nat bs) T).
      { rewrite Hms' at 1. apply filter_after; [rewrite <- Hms'; exact Hs | exact Hk]. }
      (* arithmetic of the next batch size *)
      remember (if total / bs =? batch + 1 then total mod bs else bs) as bs' eqn:Hbs'def.
      assert (Hq : (batch + 1) * bs < total) by lia.
      assert (Hdiv : batch + 1 <= total / bs) by (apply Z.div_le_lower_bound; lia).
      assert (Hbs' : 0 < bs' /\ bs' <= bs /\ (rows + bs) + bs' <= total /\
                     ((rows + bs) = (batch + 1) * bs' \/ (rows + bs) + bs' = total)).
      { subst bs'. destruct (total / bs =? batch + 1) eqn:Ed.
        - apply Z.eqb_eq in Ed. pose proof (Z.div_mod total bs ltac:(lia)) as Hdm.
          rewrite Ed in Hdm. pose proof (Z.mod_pos_bound total bs Hbs). lia.
        - apply Z.eqb_neq in Ed. assert (batch + 2 <= total / bs) by lia.
          assert ((batch + 2) * bs <= total).
          { pose proof (Z.mul_div_le total bs Hbs).
            assert ((batch + 2) * bs <= bs * (total / bs)) by nia. lia. }
          lia. }
      destruct Hbs' as [Hb1 [Hb2 [Hb3 Hb4]]].
      destruct (IH ms ((pre ++ firstn (Z.to_nat (eff_off q)) R) ++ res) (skipn (Z.to_nat bs) T)
                   tx tx (Some k) bs' total (rows + bs) (batch + 1))
        as [bl [Hbl [Hc Hok]]]; try assumption; try lia.
      * rewrite <- app_assoc. exact Hms'.
      * rewrite Htx. cbn [Z.to_nat skipn]. rewrite skipn_length. lia.
      * rewrite Hbl. exists (emit res ++ bl).
        split; [reflexivity|]. rewrite Htx in Hc. cbn [Z.to_nat skipn] in Hc. split.
        -- rewrite concat_app, emit_concat, Hc, Hsplit. do 2 f_equal. lia.
        -- apply Forall_app; split.
           ++ apply emit_forall. intros _. exists bs. split; [lia|]. split; [exact Hne|lia].
           ++ eapply Forall_impl; [|exact Hok]. cbn. intros b [x [Hx Hb]]. exists x. split; [lia|exact Hb].
Qed.

(* ---------------- FindInBatches = Find, in batches ---------------- *)

Lemma tx_off s : eff_off (limit_merge {| lim := None; off := -1 |} s) = 0.
Proof. reflexivity. Qed.

Lemma filter_nocursor ms : filter (gt_cursor None) ms = ms.
Proof. apply filter_all. reflexivity. Qed.

Lemma batches_ok_of bs bl : Forall (batch_ok bs) bl -> batches_ok bs bl.
Proof. apply Forall_impl. intros b Hb. exists bs. split; [lia|exact Hb]. Qed.

Lemma batches_ok_mono a b bl : a <= b -> batches_ok a bl -> batches_ok b bl.
Proof. intros H. apply Forall_impl. intros x [y [Hy Hx]]. exists y. split; [lia|exact Hx]. Qed.

Lemma find_in_batches_spec ms st bs :
  sorted ms -> 0 < bs ->
  exists bl, find_in_batches (fib_fuel ms) ms st bs = Some bl
             /\ List.concat bl = window (st_of st) ms
             /\ batches_ok bs bl.
Proof.
  intros Hs Hbs. unfold find_in_batches, fib_fuel.
  destruct st as [s|].
  - cbn [st_of] in *. pose proof (tx_off s) as Htx.
    destruct (match lim s with Some 0 => true | _ => false end) eqn:Hz0.
    { exists []. split; [reflexivity|]. split; [|constructor].
      unfold window, eff_lim. destruct (lim s) as [[| |]|]; try discriminate. reflexivity. }
    assert (Hz : lim s <> Some 0) by (intro E; rewrite E in Hz0; discriminate).
    set (total := match lim s with Some l => l | None => 0 end).
    destruct (0 <? total) eqn:Et.
    + apply Z.ltb_lt in Et.
      set (bs1 := if true && (total <? bs) then total else bs).
      assert (Hb1 : 0 < bs1 /\ bs1 <= total /\ bs1 <= bs).
      { unfold bs1. cbn [andb]. destruct (total <? bs) eqn:E;
          [apply Z.ltb_lt in E | apply Z.ltb_ge in E]; lia. }
      destruct (loop_limit (S (S (length ms))) ms [] ms s _ None bs1 total 0 0
                  Hs eq_refl (filter_nocursor ms) Htx) as [bl [H1 [H2 H3]]]; try lia.
      { rewrite skipn_length. lia. }
      exists bl. split; [exact H1|]. split.
      * rewrite H2. unfold window, eff_lim. unfold total in *. destruct (lim s) as [l|]; [|lia].
        replace (0 <=? l) with true by (symmetry; apply Z.leb_le; lia).
        rewrite Z.sub_0_r. reflexivity.
      * eapply batches_ok_mono; [|exact H3]. lia.
    + apply Z.ltb_ge in Et. cbn [andb].
      destruct (loop_nolimit (S (S (length ms))) ms [] ms s _ None bs total 0 0
                  Hs eq_refl (filter_nocursor ms) Htx Hbs Et) as [bl [H1 [H2 H3]]].
      { rewrite skipn_length. lia. }
      exists bl. split; [exact H1|]. split; [|apply batches_ok_of; exact H3].
      rewrite H2. unfold window, eff_lim. unfold total in *. destruct (lim s) as [l|]; [|reflexivity].
      assert (l <> 0) by congruence.
      replace (0 <=? l) with false by (symmetry; apply Z.leb_gt; lia). reflexivity.
  - destruct (loop_nolimit (S (S (length ms))) ms [] ms l_empty l_empty None bs 0 0 0
                Hs eq_refl (filter_nocursor ms) eq_refl Hbs (Z.le_refl 0)) as [bl [H1 [H2 H3]]].
    { rewrite skipn_length. lia. }
    exists bl. split; [exact H1|]. split; [exact H2|apply batches_ok_of; exact H3].
Qed.

(* rows of a window keep the order of the list and are not repeated *)
Lemma sorted_firstn n l : sorted l -> sorted (firstn n l).
Proof.
  intros H. rewrite <- (firstn_skipn n l) in H. apply sorted_app_inv in H. tauto.
Qed.
Lemma sorted_skipn n l : sorted l -> sorted (skipn n l).
Proof.
  intros H. rewrite <- (firstn_skipn n l) in H. apply sorted_app_inv in H. tauto.
Qed.
Lemma sorted_window s l : sorted l -> sorted (window s l).
Proof.
  intros H. unfold window. destruct (eff_lim s); [apply sorted_firstn|]; apply sorted_skipn; exact H.
Qed.
Lemma sorted_filter f l : sorted l -> sorted (filter f l).
Proof.
  induction l as [|h l IH]; cbn; intros H; [constructor|]. inversion H as [|? ? Hs Hf]; subst.
  destruct (f h); [|apply IH; exact Hs]. constructor; [apply IH; exact Hs|]. apply Forall_forall. intros x Hx.
  apply filter_In in Hx. destruct Hx as [Hx _]. rewrite Forall_forall in Hf. apply Hf, Hx.
Qed.
Lemma sorted_NoDup l : sorted l -> NoDup (map rid l).
Proof.
  induction l as [|h l IH]; cbn; intros H; [constructor|].
  inversion H as [|? ? Hs Hf]; subst. constructor; [|apply IH; exact Hs].
  intros Hin. apply in_map_iff in Hin. destruct Hin as [x [Hx Hin]]. rewrite Forall_forall in Hf.
  specialize (Hf x Hin). lia.
Qed.

(* ---------------- Count / First / Last ---------------- *)

Lemma count_is_find_length tbl c o :
  count tbl c = Z.of_nat (length (find tbl c o l_empty)).
Proof.
  unfold count, find, window. cbn. f_equal.
  destruct o; cbn [ordered]; try reflexivity.
  - rewrite rev_length; reflexivity.
  - unfold sort_by. induction (matches c tbl) as [|h l IH]; cbn; [reflexivity|].
    rewrite IH. clear IH. induction (fold_right (insert_by snd) [] l) as [|y r IHr]; cbn; [reflexivity|].
    destruct (snd h <=? snd y); cbn; [reflexivity|]. rewrite <- IHr. reflexivity.
Qed.

(* without limit/offset in the chain First returns the lowest matching key, Last the highest *)
Lemma first_is_min tbl c :
  sorted tbl ->
  match first_ tbl c OrdNone None with
  | None => matches c tbl = []
  | Some r => In r (matches c tbl) /\ forall x, In x (matches c tbl) -> rid r <= rid x
  end.
Proof.
  intros Hs. unfold first_, limit1. cbn [apply_lop st_of]. unfold window; cbn.
  pose proof (sorted_filter (cond_holds c) tbl Hs) as Hm. unfold matches.
  destruct (filter (cond_holds c) tbl) as [|h t]; cbn; [reflexivity|].
  split; [auto|]. inversion Hm as [|? ? _ Hf]; subst. rewrite Forall_forall in Hf.
  intros x [<-|Hx]; [lia|]. specialize (Hf x Hx). lia.
Qed.

Lemma last_is_max tbl c :
  sorted tbl ->
  match last_ tbl c OrdNone None with
  | None => matches c tbl = []
  | Some r => In r (matches c tbl) /\ forall x, In x (matches c tbl) -> rid x <= rid r
  end.
Proof.
  intros Hs. unfold last_, limit1. cbn [apply_lop st_of]. unfold window; cbn.
  pose proof (sorted_filter (cond_holds c) tbl Hs) as Hm. unfold matches.
  destruct (rev (filter (cond_holds c) tbl)) as [|h t] eqn:E; cbn.
  - rewrite <- (rev_involutive (filter _ _)), E. reflexivity.
  - assert (HE : filter (cond_holds c) tbl = rev t ++ [h]).
    { rewrite <- (rev_involutive (filter _ _)), E. reflexivity. }
    rewrite HE in *. split; [apply in_or_app; right; left; reflexivity|].
    apply sorted_app_inv in Hm. destruct Hm as [_ [_ Hlt]].
    intros x Hx. apply in_app_or in Hx. destruct Hx as [Hx|[<-|[]]]; [|lia].
    specialize (Hlt x h Hx (or_introl eq_refl)). lia.
Qed.

(* ErrRecordNotFound exactly when nothing matches (any ordering; no offset in the chain) *)
Lemma first_none_iff tbl c o :
  first_ tbl c o None = None <-> find tbl c o l_empty = [].
Proof.
  unfold first_, find, limit1. cbn [apply_lop st_of]. unfold window; cbn.
  replace (Pos.to_nat 1) with 1%nat by reflexivity.
  destruct (ordered o (matches c tbl)); cbn; split; congruence.
Qed.
