(* Props_C17.v — property C17: ONLY theorem statements, each closed by [exact] of a lemma
   from the C17_Proofs* files, followed by Print Assumptions. *)
From Verif Require Import Base C17_Model C17_Proofs.
From Coq Require Import Permutation.
Open Scope string_scope.

(* One compile (processor.compile -> sortCallbacks), for EVERY list of callbacks whatever their
   Before/After fields: if no error is returned and the recursion ends, the handler list has no name
   twice and holds exactly the names of the compiled callbacks; Before/After fields apart, the
   callbacks are those that went in. *)
Theorem c17_compile_exactly_once : forall cs0 cs fns,
  sort_callbacks cs0 = SOk cs fns ->
  (forall c, In c cs0 -> cb_remove c = false) ->
  map key cs = map key (presort cs0)
  /\ NoDup (map fst fns)
  /\ (forall n, In n (map fst fns) <-> In n (map cb_name cs0)).
Proof. exact sort_callbacks_once. Qed.
Print Assumptions c17_compile_exactly_once.

(* the "*" pre-sort only permutes *)
Theorem c17_presort_permutation : forall cs, Permutation (presort cs) cs.
Proof. exact presort_perm. Qed.
Print Assumptions c17_presort_permutation.
