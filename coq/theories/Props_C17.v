(* Props_C17.v — property C17: ONLY theorem statements, each closed by [exact] of a lemma
   from the C17_* files, followed by Print Assumptions.
   Vocabulary (C17_Model / C17_Check / C17_Known):
     run h            what the model of callbacks.go answers, call after call, to the history h
                      (OOk fired | OErr msg fired | OCrash = recursion without end)
     judge q c ..     the checker's judgement of clause q on every in-domain call of a history
                      (c = true: a crash is not held against the clause)
     spec_from        the whole property = judge spec_ok false (what check_case evaluates on gorm's answers)
     hist_known h     h puts the book into one of the five known-finding classes (input only)  *)
From Verif Require Import Base C17_Model C17_Check C17_Known C17_Proofs C17_Proofs2 C17_Proofs3 C17_Proofs4
  C17_Plugin5 C17_Exh1 C17_Exh3 C17_CheckK C17_Wide C17_Back3 C17_Back4.
From Coq Require Import Permutation.
Open Scope string_scope.
Open Scope list_scope.

(* ---- exactly once: ALL histories, no bound ------------------------------------------------- *)

(* One compile (processor.compile -> sortCallbacks), for EVERY list of callbacks whatever their
   Before/After fields: if no error is returned and the recursion ends, the handler list has no name
   twice and holds exactly the names of the compiled callbacks; Before/After fields apart, the
   callbacks are those that went in. *)
Theorem c17_compile_exactly_once : forall cs0 cs fns,
  sort_callbacks cs0 = SOk cs fns ->
  (forall c, In c cs0 -> cb_remove c = false) ->
  map key cs = map key (presort cs0)
  /\ NoDup (map fst fns)
  /\ (forall n, In n (map fst fns) <-> In n (map cb_name cs0)).
Proof. exact sort_callbacks_once. Qed.
Print Assumptions c17_compile_exactly_once.

(* Whole histories: after ANY sequence of calls, every in-domain call that returns nil leaves a
   pipeline that fires each registered, non-removed callback exactly once (clause cl_once of the
   checker: as many firings as live callbacks, no name twice, only live names). *)
Theorem c17_history_exactly_once : forall h, judge cl_once true r0 0%N None O h (run h) = true.
Proof. exact history_exactly_once. Qed.
Print Assumptions c17_history_exactly_once.

(* ... and without any domain at all: for EVERY history (names registered twice, Replace / Remove of names
   that are not registered, guards, requests on Replace / Remove) a name counts as registered from a matched
   Register / Replace of it until a Remove of it, and every nil answer fires each registered name exactly once
   (C17_CheckK.wide_once, judged on gorm's answers by check_case) *)
Theorem c17_history_exactly_once_wide : forall h, wide_once [] O h (run h) = true.
Proof. exact history_exactly_once_wide. Qed.
Print Assumptions c17_history_exactly_once_wide.

Theorem c17_presort_permutation : forall cs, Permutation (presort cs) cs.
Proof. exact presort_perm. Qed.
Print Assumptions c17_presort_permutation.

(* ---- the checker's specification is the conjunction of six independent judgements ---------- *)
Theorem c17_spec_decomposes : forall h r i prev k os,
  spec_from r i prev k h os =
  judge cl_true false r i prev k h os
  && (judge cl_once true r i prev k h os
  && (judge cl_handler true r i prev k h os
  && (judge cl_sides true r i prev k h os
  && (judge cl_builtin true r i prev k h os
  && judge cl_replace true r i prev k h os)))).
Proof. exact spec_decomposes. Qed.
Print Assumptions c17_spec_decomposes.

(* ---- refuted at full strength: witnesses (each replayed on the real code, corpus/C17) ------- *)

(* "either an error is returned": with the depth guard of /repo 591f9f1 (modelled: fuel 2|cs|+2, then the
   error "conflicting callback .. with cyclic before/after") the model NEVER answers with a dead process,
   for any history.  (Before that commit: c17_no_crash_refuted, witness After(u2).Register(u1);
   After(u1).Register(u2), fatal stack overflow on the real code.) *)
Theorem c17_never_crashes : forall h, judge cl_true false r0 0%N None O h (run h) = true.
Proof. exact history_never_crashes. Qed.
Print Assumptions c17_never_crashes.

(* the two former crash witnesses now get the error, and the whole property holds on them *)
Theorem c17_cycle_detected :
  (in_domain w_cycle = true
   /\ last (run w_cycle) OCrash = OErr "conflicting callback u1 with cyclic before/after" []
   /\ runs spec_ok false w_cycle = true)
  /\ (in_domain w_self = true
      /\ last (run w_self) OCrash = OErr "conflicting callback u1 with cyclic before/after" []
      /\ runs spec_ok false w_self = true).
Proof. exact (conj cycle_detected self_detected). Qed.
Print Assumptions c17_cycle_detected.

(* ... but not every cycle is detected: a callback naming itself, and a cycle through three callbacks,
   are answered nil with a callback on the wrong side *)
Theorem c17_cycle_silent_refuted :
  (exists h, in_domain h = true /\ runs cl_sides true h = false
             /\ self_target (r_live (book r0 0%N h)) = true)
  /\ (exists h, in_domain h = true /\ runs cl_sides true h = false
                /\ (let live := r_live (book r0 0%N h) in
                    cyclic (map e_name live) (builtin_chain None live ++ named_edges live) = true)).
Proof.
  split.
  - exists w_self_silent. pose proof self_silent as H. split; [tauto|]. split; [tauto|]. vm_compute. reflexivity.
  - exists w_cycle_silent. pose proof cycle_silent as H. tauto.
Qed.
Print Assumptions c17_cycle_silent_refuted.

(* Replace of a "*" callback: since /repo e28c215 the new handler runs at the old place, and the whole
   property holds on the former witness Before("*").Register(u1); Replace(u1) (before that commit:
   c17_replace_refuted - the old handler kept running, behind the built-ins) *)
Theorem c17_star_replace_fixed :
  in_domain w_star_replace = true
  /\ last (run w_star_replace) OCrash = OOk [("u1", 2%N); ("gorm:row", 0%N)]
  /\ runs spec_ok false w_star_replace = true.
Proof. exact star_replace_fixed. Qed.
Print Assumptions c17_star_replace_fixed.

(* sides: a SATISFIABLE request (no cycle in the constraint graph, "*" edges included) is answered
   nil with a callback on the wrong side: After("*").Register(u1); Before(u1).Register(u2); Register(u3) *)
Theorem c17_sides_refuted : exists h,
  in_domain h = true /\ runs cl_sides true h = false
  /\ (let live := r_live (book r0 0%N h) in
      cyclic (map e_name live) (builtin_chain None live ++ named_edges live ++ star_edges live) = false).
Proof. exists w_overwrite. pose proof after_overwritten_side as H. tauto. Qed.
Print Assumptions c17_sides_refuted.

(* ... and an unsatisfiable one is answered nil as well: Before(gorm:row).After("*").Register(u1) *)
Theorem c17_star_unsat_refuted : exists h, in_domain h = true /\ runs cl_sides true h = false.
Proof. exists w_star_unsat. pose proof star_unsat_silent as H. tauto. Qed.
Print Assumptions c17_star_unsat_refuted.

(* ---- partial, unbounded: the WHOLE property on the plugin domain ----------------------------
   bs = the default registration (plain Register calls, with or without a Match guard), us = ANY
   number of user calls Register / Before(t).Register / After(t).Register / Before(a).After(b).Register /
   Replace / Remove whose targets t name a built-in callback (live, replaced or removed) or a name under
   which nothing is ever registered, never "*" (plugin_hist).  Then, on the model of callbacks.go, every
   in-domain call either returns an error or leaves a pipeline that fires each live callback once, runs the
   handler registered last, honours every Before/After, keeps the built-in order and, for Replace, the
   position; the recursion always ends.  This is exactly the missing hypothesis of the refuted clauses:
   the witnesses above need a target that is a user callback or "*". *)
Theorem c17_plugin_domain_correct : forall bs us,
  plugin_hist bs us = true ->
  spec_from r0 0%N None O (bs ++ us) (run (bs ++ us)) = true.
Proof. exact plugin_correct. Qed.
Print Assumptions c17_plugin_domain_correct.

(* the same, clause by clause: no crash / once / handler / sides / built-in order / Replace position *)
Theorem c17_plugin_domain_clauses : forall bs us,
  plugin_hist bs us = true ->
  let h := bs ++ us in
  runs cl_true false h = true /\ runs cl_once true h = true /\ runs cl_handler true h = true
  /\ runs cl_sides true h = true /\ runs cl_builtin true h = true /\ runs cl_replace true h = true.
Proof.
  intros bs us H h. pose proof (plugin_correct bs us H) as P. fold h in P.
  rewrite spec_decomposes in P. unfold runs.
  repeat (apply andb_true_iff in P; destruct P as [? P]). auto 10.
Qed.
Print Assumptions c17_plugin_domain_clauses.

(* the hypothesis is satisfiable by a non-trivial history: two plugins around built-ins of the query
   pipeline, a built-in replaced, another removed, a request naming the removed one *)
Example plugin_example :
  let bs := builtin_steps ["gorm:query"; "gorm:preload"; "gorm:after_query"] in
  let us := [reg "p1" "gorm:query" ""; reg "p2" "gorm:after_query" "gorm:query";
             mk_step KReplace "gorm:preload" "" "" false true; mk_step KRemove "gorm:query" "" "" false true;
             reg "p3" "" "gorm:query"; reg "p4" "zz:unknown" "gorm:preload"] in
  plugin_hist bs us = true /\ in_domain (bs ++ us) = true
  /\ last (run (bs ++ us)) OCrash
     = OOk [("gorm:preload", 5%N); ("p2", 4%N); ("gorm:after_query", 2%N); ("p1", 3%N); ("p3", 7%N); ("p4", 8%N)].
Proof. vm_compute. auto. Qed.

(* ---- partial, unbounded, wider: the WHOLE property on the backward domain ----------------------
   ANY history (no split into default registration + user calls is assumed: the checker's domain flag
   already demands that the built-in registrations come first and are plain) in which no request is "*"
   and no matched Register takes a name that the same or an earlier call has named as a Before/After
   target (backward_hist, decidable, input only).  A request then names a callback registered EARLIER -
   built-in or user, live, replaced or removed by now, the "previously registered names" of the
   property's quantifier - or a name under which nothing is ever registered; a removed name may be
   registered again as long as nobody has named it.  On the model of callbacks.go every in-domain call
   then returns an error or leaves a pipeline that fires each live callback once, runs the handler
   registered last, honours every Before/After, keeps the built-in order and, for Replace, the position;
   the recursion always ends.  (Proof: at the moment sortCallback visits a callback every request is
   inert - its target is already sorted or is no callback - so the closure neither recurses nor writes;
   invariant binv over Register / Replace / Remove, C17_Back*.v.)  What is left outside are requests
   naming "*" or a name registered LATER (forward references), where the refuted clauses' witnesses live. *)
Theorem c17_backward_domain_correct : forall h,
  backward_hist h = true -> spec_from r0 0%N None O h (run h) = true.
Proof. exact backward_correct. Qed.
Print Assumptions c17_backward_domain_correct.

Theorem c17_backward_domain_clauses : forall h,
  backward_hist h = true ->
  runs cl_true false h = true /\ runs cl_once true h = true /\ runs cl_handler true h = true
  /\ runs cl_sides true h = true /\ runs cl_builtin true h = true /\ runs cl_replace true h = true.
Proof.
  intros h H. pose proof (backward_correct h H) as P.
  rewrite spec_decomposes in P. unfold runs.
  repeat (apply andb_true_iff in P; destruct P as [? P]). auto 10.
Qed.
Print Assumptions c17_backward_domain_clauses.

(* the plugin domain is a special case of the backward domain *)
Theorem c17_plugin_is_backward : forall bs us,
  plugin_hist bs us = true -> backward_hist (bs ++ us) = true.
Proof. exact plugin_is_backward. Qed.
Print Assumptions c17_plugin_is_backward.

(* the hypothesis is satisfiable beyond the plugin domain: user callbacks naming user callbacks, one of them
   replaced, another removed while still named, a conflicting request answered with the error, the offender
   removed again *)
Example backward_example :
  backward_hist back_example = true /\ in_domain back_example = true
  /\ plugin_hist (firstn 3 back_example) (skipn 3 back_example) = false
  /\ nth 9 (run back_example) OCrash = OErr "conflicting callback p5 with before p4" []
  /\ last (run back_example) OCrash
     = OOk [("gorm:query", 0%N); ("p1", 6%N); ("gorm:preload", 1%N); ("gorm:after_query", 2%N);
            ("p6", 11%N); ("p3", 5%N); ("p4", 7%N)].
Proof. vm_compute. auto 10. Qed.

(* ---- bounded-exhaustive: every in-domain history of at most 3 calls (the bound of the property
   text) over {built-in names, user names (also before they are registered), an unknown name, "*"}
   satisfies the WHOLE property on the model, or falls into a known-finding class.
   Row/Raw shape, three user names: 152593 histories. *)
Theorem c17_len3_exhaustive_row : forall h,
  In h (extensions 3 alpha_row (builtin_steps (a_builtins alpha_row))) -> spec_run h || hist_known h = true.
Proof. exact (all_ok_extensions 3 alpha_row _ exh_row). Qed.
Print Assumptions c17_len3_exhaustive_row.

(* Query shape: three built-ins (named b1, b2, b3 - the model compares names only for equality), two
   user names: 115811 histories. *)
Theorem c17_len3_exhaustive_query : forall h,
  In h (extensions 3 alpha_query (builtin_steps (a_builtins alpha_query))) -> spec_run h || hist_known h = true.
Proof. exact (all_ok_extensions 3 alpha_query _ exh_query). Qed.
Print Assumptions c17_len3_exhaustive_query.

(* (Create shape, seven built-ins, at most 2 calls: Props_C17_Thorough.v, built in the thorough tier.) *)
Theorem c17_exhaustive_sizes :
  count_ext 3 alpha_row (builtin_steps (a_builtins alpha_row)) = 152593%N
  /\ count_ext 3 alpha_query (builtin_steps (a_builtins alpha_query)) = 115811%N.
Proof. exact (conj exh_row_count exh_query_count). Qed.
Print Assumptions c17_exhaustive_sizes.
