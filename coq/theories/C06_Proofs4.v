(* C06_Proofs4.v — statement-level specification of an operation on the heap ([ospec]): heap
   extension, well-formedness, how the statement's slices may evolve, the frame property modulo the
   normalisation of Where.Build, and the simulation by the list-level operation; composition. *)
From Verif Require Import Base C06_Model C06_Proofs2 C06_Proofs3.
Open Scope nat_scope.

Definition swf (h : heap) (s : mstmt) : Prop := forall f, wf_slice h f (sl s f).

(* how the slices of the statement an operation mutates may change: unchanged, nil, a fresh
   array, or - for Joins/scopes only - the same array with a larger length *)
Definition evolves (h : heap) (s s' : mstmt) : Prop :=
  forall f, sl s' f = sl s f \/ sl s' f = SNil \/ fresh h (sl s' f)
            \/ (excl f = true /\ exists l n n' c, sl s f = SArr l n c /\ sl s' f = SArr l n' c /\ n <= n').

(* a slice [x] of field f held by some other statement is compatible with s: if it shares the
   backing array of s's slice it has the same length, and the field is never appended in place *)
Definition compat (s : mstmt) (f : field) (x : slice) : Prop :=
  match x, sl s f with
  | SArr l n _, SArr l' n' _ => l = l' -> n = n' /\ excl f = false
  | _, _ => True
  end.

Definition rdn (f : field) (h : heap) (x : slice) : option (list cell) := fnorm f (rdo h x).

Record ospec (P : pstmt -> pstmt) (h : heap) (s s' : mstmt) (h' : heap) (w : wset) : Prop := {
  os_ext : hext h h' w;
  os_wf : swf h' s';
  os_ev : evolves h s s';
  os_frame : forall f x, wf_slice h f x -> compat s f x -> rdn f h' x = rdn f h x;
  os_abs : peq (abs h' s') (P (abs h s));
  os_gp : gp s' = gp s
}.

Lemma swf_ext h h' w s : hext h h' w -> swf h s -> swf h' s.
Proof. intros X W f. eapply wf_slice_ext; eauto. Qed.

Lemma wf_tag h f g l n c n' c' : wf_slice h f (SArr l n c) -> wf_slice h g (SArr l n' c') -> f = g /\ c = c'.
Proof. intros (a & E & L & _) (a' & E' & L' & _). rewrite E in E'. inversion E'; subst. auto. Qed.

(* an operation whose writes go to fresh arrays or beyond the length of a slice of s *)
Lemma ospec_of_writes P h s s' h' w :
  swf h s -> hext h h' w -> swf h' s' -> evolves h s s' ->
  (forall l i, In (l, i) w -> length h <= l \/ exists f n c, sl s f = SArr l n c /\ n <= i) ->
  peq (abs h' s') (P (abs h s)) -> gp s' = gp s -> ospec P h s s' h' w.
Proof.
  intros W X W' Ev Hw A G. constructor; auto.
  intros f x Wx C. unfold rdn. f_equal. eapply rdo_frame; eauto.
  intros l n c i -> Hi Hin. destruct (Hw _ _ Hin) as [Hf | (g & n' & c' & E & Hn)].
  - apply wf_slice_lt in Wx. lia.
  - assert (Wg := W g). rewrite E in Wg. destruct (wf_tag _ _ _ _ _ _ _ _ Wx Wg) as (-> & _).
    unfold compat in C. rewrite E in C. destruct (C eq_refl) as (-> & _). lia.
Qed.

Lemma evolves_refl h s : evolves h s s.
Proof. intro f. auto. Qed.

Lemma evolves_trans h h1 s s1 s2 : length h <= length h1 -> evolves h s s1 -> evolves h1 s1 s2 -> evolves h s s2.
Proof.
  intros L E1 E2 f. specialize (E1 f). specialize (E2 f).
  destruct E2 as [E2 | [E2 | [F2 | (X2 & l & n & n' & c & Ea & Eb & Hn)]]].
  - rewrite E2. exact E1.
  - auto.
  - right; right; left. destruct (sl s2 f); auto. cbn in *. lia.
  - rewrite Eb. destruct E1 as [E1 | [E1 | [F1 | (X1 & l1 & n1 & n1' & c1 & Ea1 & Eb1 & Hn1)]]].
    + right; right; right. split; auto. exists l, n, n', c. rewrite <- E1. auto.
    + congruence.
    + right; right; left. rewrite Ea in F1. exact F1.
    + right; right; right. split; auto. rewrite Ea in Eb1. inversion Eb1; subst.
      exists l1, n1, n', c1. repeat split; auto. lia.
Qed.

Lemma compat_evolves h s s1 f x : wf_slice h f x -> evolves h s s1 -> compat s f x -> compat s1 f x.
Proof.
  intros Wx Ev C. unfold compat in *. destruct x as [|l n c]; auto.
  destruct (Ev f) as [E | [E | [F | (X & l0 & n0 & n0' & c0 & Ea & Eb & Hn)]]].
  - rewrite E. exact C.
  - rewrite E. exact I.
  - destruct (sl s1 f) as [|l' n' c']; auto. intros ->. apply wf_slice_lt in Wx. cbn in F. lia.
  - rewrite Eb. rewrite Ea in C. intros ->. destruct (C eq_refl) as (_ & N). congruence.
Qed.

Lemma ospec_trans P1 P2 h s s1 h1 w1 s2 h2 w2 :
  (forall a b, peq a b -> peq (P2 a) (P2 b)) ->
  ospec P1 h s s1 h1 w1 -> ospec P2 h1 s1 s2 h2 w2 ->
  ospec (fun p => P2 (P1 p)) h s s2 h2 (w1 ++ w2).
Proof.
  intros Cg O1 O2. assert (X1 := os_ext _ _ _ _ _ _ O1). assert (L : length h <= length h1) by apply X1.
  constructor.
  - eapply hext_trans; [exact X1 | apply (os_ext _ _ _ _ _ _ O2)].
  - apply (os_wf _ _ _ _ _ _ O2).
  - eapply evolves_trans; [exact L | apply (os_ev _ _ _ _ _ _ O1) | apply (os_ev _ _ _ _ _ _ O2)].
  - intros f x Wx C. rewrite (os_frame _ _ _ _ _ _ O2).
    + apply (os_frame _ _ _ _ _ _ O1); auto.
    + eapply wf_slice_ext; eauto.
    + eapply compat_evolves; eauto. apply (os_ev _ _ _ _ _ _ O1).
  - eapply peq_trans; [apply (os_abs _ _ _ _ _ _ O2) | apply Cg, (os_abs _ _ _ _ _ _ O1)].
  - rewrite (os_gp _ _ _ _ _ _ O2). apply (os_gp _ _ _ _ _ _ O1).
Qed.

Lemma ospec_id P h s : swf h s -> peq (abs h s) (P (abs h s)) -> ospec P h s s h [].
Proof.
  intros W A. apply ospec_of_writes; auto.
  - apply hext_refl.
  - apply evolves_refl.
  - intros l i [].
Qed.

Lemma ospec_change P P' h s s' h' w :
  ospec P h s s' h' w -> peq (P (abs h s)) (P' (abs h s)) -> ospec P' h s s' h' w.
Proof.
  intros O E. destruct O. constructor; auto. eapply peq_trans; eauto.
Qed.

(* ---- abs of updated statements ---- *)
Lemma abs_pl h s f : pl (abs h s) f = rdo h (sl s f).
Proof. reflexivity. Qed.
Lemma abs_pk h s : pk (abs h s) = sc s.
Proof. reflexivity. Qed.

Lemma peq_pointwise a b : pk a = pk b -> (forall f, pl a f = pl b f) -> peq a b.
Proof. intros K H. split; auto. intro f. rewrite H. reflexivity. Qed.

(* reading the slices of s in an extended heap where only cells beyond their lengths / fresh cells were written *)
Lemma rdo_own h h' w s f :
  swf h s -> hext h h' w ->
  (forall l i, In (l, i) w -> length h <= l \/ exists g n c, sl s g = SArr l n c /\ n <= i) ->
  rdo h' (sl s f) = rdo h (sl s f).
Proof.
  intros W X Hw. eapply rdo_frame; eauto. intros l n c i E Hi Hin.
  destruct (Hw _ _ Hin) as [Hf | (g & n' & c' & Eg & Hn)].
  - assert (Wf := W f). rewrite E in Wf. apply wf_slice_lt in Wf. lia.
  - assert (Wf := W f). assert (Wg := W g). rewrite E in Wf. rewrite Eg in Wg.
    destruct (wf_tag _ _ _ _ _ _ _ _ Wf Wg) as (-> & _). rewrite E in Eg. inversion Eg; subst. lia.
Qed.

(* ---- setting one field from the result of a slice command ---- *)
(* [old] is the slice the command started from: the current slice of field f, or nil (a new array) *)
Lemma ospec_set P h s f old content v h' w k :
  swf h s -> (old = sl s f \/ old = SNil) ->
  sres h f old content v h' w ->
  (excl f = true \/ v = old \/ fresh h v \/ v = SNil) ->
  peq (mk_p (fun g => if field_eqb g f then content else rdo h (sl s g)) k) (P (abs h s)) ->
  ospec P h s (set_sc (set_sl s f v) k) h' w.
Proof.
  intros W Ho R Sh A.
  assert (X := sr_ext _ _ _ _ _ _ _ R).
  assert (Hw : forall l i, In (l, i) w -> length h <= l \/ exists g n c, sl s g = SArr l n c /\ n <= i).
  { intros l i Hin. destruct (sr_w _ _ _ _ _ _ _ R _ _ Hin) as [Hf | (n & c & E & Hn)]; auto.
    right. destruct Ho as [-> | ->]; [|discriminate]. exists f, n, c. split; [auto | lia]. }
  apply ospec_of_writes; auto.
  - intro g. cbn. destruct (field_eqb g f) eqn:Eg.
    + apply field_eqb_spec in Eg. subst. apply (sr_wf _ _ _ _ _ _ _ R).
    + eapply wf_slice_ext; eauto.
  - intro g. cbn. destruct (field_eqb g f) eqn:Eg; auto. apply field_eqb_spec in Eg. subst g.
    destruct (sr_shape _ _ _ _ _ _ _ R) as [E | [F | (l & n & n' & c & Eo & Ev & Hn)]].
    + destruct Ho as [-> | ->]; auto.
    + auto.
    + destruct Ho as [-> | ->]; [|discriminate].
      destruct Sh as [Ex | [E | [F | E]]].
      * right; right; right. split; auto. exists l, n, n', c. auto.
      * left. congruence.
      * auto.
      * auto.
  - eapply peq_trans; [|exact A]. apply peq_pointwise; auto.
    intro g. cbn. destruct (field_eqb g f) eqn:Eg.
    + apply (sr_rd _ _ _ _ _ _ _ R).
    + eapply rdo_own; eauto.
Qed.

(* only scalars change *)
Lemma ospec_scal P h s k :
  swf h s -> peq (mk_p (fun g => rdo h (sl s g)) k) (P (abs h s)) -> ospec P h s (set_sc s k) h [].
Proof.
  intros W A. apply ospec_of_writes; auto.
  - apply hext_refl.
  - intro f. left. reflexivity.
  - intros l i [].
Qed.
