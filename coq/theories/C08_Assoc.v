(* C08_Assoc.v — soft delete on the association paths: which related rows a has-many lookup
   (Preload, Association().Find / Count) and a belongs-to lookup (Joins, InnerJoins, Preload of the
   target) report when the related model has a soft-delete column.  No proofs here.
   Modelled code, as far as it decides WHICH related rows are seen: callbacks/preload.go preload
   (the related model's query clauses apply to the preload query), association.go buildCondition,
   callbacks/query.go BuildQuerySQL (the joined model's soft-delete filter is a conjunct of the ON
   clause), soft_delete.go (Unscoped switches the filter off). *)
From Verif Require Import Base.
Open Scope Z_scope.

(* a row of a related table: key, foreign key, one data column, deletion stamp (None = live) *)
Record arow := mk_arow { a_id : Z; a_fk : Z; a_val : Z; a_del : option Z }.
Definition alive (r : arow) : bool := match a_del r with None => true | Some _ => false end.
Definition visible (unsc : bool) (r : arow) : bool := unsc || alive r.

(* has-many: the children of parent [p] that satisfy the caller's condition [c] *)
Definition children (unsc : bool) (c : Z -> bool) (tbl : list arow) (p : Z) : list Z :=
  map a_id (filter (fun r => visible unsc r && (a_fk r =? p) && c (a_val r)) tbl).
Definition child_count (unsc : bool) (c : Z -> bool) (tbl : list arow) (p : Z) : Z :=
  Z.of_nat (length (children unsc c tbl p)).

(* belongs-to: the target with key [k] that satisfies the ON condition [on] *)
Definition target (unsc : bool) (on : Z -> bool) (tbl : list arow) (k : Z) : option Z :=
  option_map a_id (List.find (fun r => visible unsc r && (a_id r =? k) && on (a_val r)) tbl).
(* Joins (LEFT JOIN): every source row (id, fk) with its target's key, 0 when there is none;
   InnerJoins: the source rows that have a target *)
Definition left_join (unsc : bool) (on : Z -> bool) (tbl : list arow) (src : list (Z * Z)) : list Z :=
  map (fun s => match target unsc on tbl (snd s) with Some k => k | None => 0 end) src.
Definition inner_join (unsc : bool) (on : Z -> bool) (tbl : list arow) (src : list (Z * Z)) : list Z :=
  map fst (filter (fun s => match target unsc on tbl (snd s) with Some _ => true | None => false end) src).

(* the related table as a caller who never says Unscoped may think of it *)
Definition erase_a (tbl : list arow) : list arow := filter alive tbl.

(* a marked copy of a row under another key *)
Definition twin (t : Z) (r : arow) : arow := mk_arow (a_id r + 100) (a_fk r) (a_val r) (Some t).

(* ---- the harness's fixture (harness/cmd/c08 assoc): owners 1..3, kid i belongs to owner
   i mod 3 + 1; keepers 1..3 named "k" (data column 1), pet j points to keeper j; with twins every
   kid and keeper has a marked copy (+100) and pet j+10 points to the marked keeper j+100 ---- *)
Definition kids_of (rows : list (Z * Z)) : list arow :=
  map (fun r => mk_arow (fst r) (fst r mod 3 + 1) (snd r) None) rows.
Definition with_twins (tw : bool) (s : list arow) : list arow := if tw then s ++ map (twin 1) s else s.
Definition keepers0 : list arow := map (fun k => mk_arow k 0 1 None) [1; 2; 3].
Definition pets (tw : bool) : list (Z * Z) :=
  [(1, 1); (2, 2); (3, 3)] ++ if tw then [(11, 101); (12, 102); (13, 103)] else [].
Definition small_pets (ps : list (Z * Z)) : list (Z * Z) := filter (fun p => fst p <? 10) ps.
Definition any (_ : Z) : bool := true.

(* the first 22 observations of the scoped run, in the harness's order *)
Definition scoped_paths (tw : bool) (rows : list (Z * Z)) : list (list Z) :=
  let kids := with_twins tw (kids_of rows) in
  let keepers := with_twins tw keepers0 in
  let ps := pets tw in
  map (children false any kids) [1; 2; 3]
  ++ map (children false (fun a => (2 <? a) || (a =? 0)) kids) [1; 2; 3]
  ++ flat_map (fun p => [children false any kids p; [child_count false any kids p];
                         children false (fun a => (a <? 1) || (3 <? a)) kids p]) [1; 2; 3]
  ++ [left_join false any keepers (small_pets ps);          (* Joins("Keeper") *)
      left_join false any keepers (small_pets ps);          (* Preload("Keeper") *)
      inner_join false any keepers ps;                      (* InnerJoins("Keeper") *)
      left_join false (fun n => n =? 1) keepers (small_pets ps);
      inner_join false (fun n => (n =? 1) || (n =? 2)) keepers ps;
      left_join false (fun n => (n =? 2) || (n =? 1)) keepers (small_pets ps);
      inner_join false (fun n => (n =? 2) || (n =? 1)) keepers ps].
Definition scoped_len : nat := 22.

(* the first 5 observations of the Unscoped run (pet ids above 10 are reported keeper-side) *)
Definition unscoped_paths (tw : bool) (rows : list (Z * Z)) : list (list Z) :=
  let kids := with_twins tw (kids_of rows) in
  let keepers := with_twins tw keepers0 in
  let ps := pets tw in
  [left_join true any keepers ps;
   map (fun i => if 10 <? i then i + 90 else i) (inner_join true any keepers ps)]
  ++ map (children true any kids) [1; 2; 3].
Definition unscoped_len : nat := 5.
