(* C10_Schemas.v — the seven fixed model types of harness/cmd/c10 as field descriptors (copied from the
   terms the harness prints; c10_harness_schemas_wf shows they meet the theorems' hypotheses). *)
From Verif Require Import Base C10_Model.
Open Scope Z_scope.

Definition schema_t1 : schema :=
  [(mk_field "ID"%string "id"%string false false None None None true ANone);
   (mk_field "Name"%string "name"%string false false None None None false ANone);
   (mk_field "Age"%string "age"%string false false None None None false ANone);
   (mk_field "Note"%string "note"%string false false None None None false ANone);
   (mk_field "CreatedAt"%string "created_at"%string false false None None None false ACreate);
   (mk_field "UpdatedAt"%string "updated_at"%string false false None None None false AUpdate)].

Definition schema_t2 : schema :=
  [(mk_field "ID"%string "id"%string false false None None None true ANone);
   (mk_field "A"%string "a"%string false false None None (Some WCreate) false ANone);
   (mk_field "B"%string "b"%string false false None None (Some WUpdate) false ANone);
   (mk_field "C"%string "c"%string false false None None (Some WFalse) false ANone);
   (mk_field "D"%string "d"%string false false None (Some true) None false ANone);
   (mk_field "E"%string "e"%string false false None (Some false) None false ANone);
   (mk_field "F"%string "f"%string false false None None None false ANone);
   (mk_field "N"%string "n"%string false false None None (Some WAll) false ANone);
   (mk_field "UpdatedAt"%string "updated_at"%string false false None None None false AUpdate)].

Definition schema_t3 : schema :=
  [(mk_field "ID"%string "id"%string false false None None None true ANone);
   (mk_field "G"%string "g"%string false false (Some DDash) None None false ANone);
   (mk_field "H"%string "h"%string false false (Some DMigration) None None false ANone);
   (mk_field "I"%string "i"%string false false (Some DAll) None None false ANone);
   (mk_field "J"%string "j"%string false false None None None false ANone);
   (mk_field "K"%string "k"%string false false None (Some true) (Some WCreate) false ANone);
   (mk_field "CreatedAt"%string "created_at"%string false false None None None false ACreate);
   (mk_field "UpdatedAt"%string "updated_at"%string false false None None None false AUpdate)].

Definition schema_t4 : schema :=
  [(mk_field "ID"%string "id"%string false false None None None true ANone);
   (mk_field "Name"%string "name"%string false false None None None false ANone);
   (mk_field "CreatedAt"%string "created_at"%string false false None None None false ACreate);
   (mk_field "UpdatedAt"%string "updated_at"%string false false None None None false AUpdate);
   (mk_field "Touched"%string "touched"%string false false None None None false AUpdate);
   (mk_field "Made"%string "made"%string false false None None None false ACreate)].

Definition schema_t5 : schema :=
  [(mk_field "ID"%string "id"%string false false None None None true ANone);
   (mk_field "Name"%string "name"%string false false None None None false ANone);
   (mk_field "Age"%string "age"%string false false None None (Some WUpdate) false ANone);
   (mk_field "CreatedAt"%string "created_at"%string false false None None (Some WCreate) false ACreate);
   (mk_field "UpdatedAt"%string "updated_at"%string false false None None (Some WCreate) false AUpdate);
   (mk_field "Seen"%string "seen"%string false false None (Some true) None false AUpdate)].

Definition schema_t6 : schema :=
  [(mk_field "ID"%string "id"%string false false None None None true ANone);
   (mk_field "FullName"%string "full_nm"%string true false None None None false ANone);
   (mk_field "Age"%string "years"%string true false None None (Some WUpdate) false ANone);
   (mk_field "Nick"%string "nick"%string true false None None (Some WCreate) false ANone);
   (mk_field "Zip"%string "zip"%string false false None None (Some WCreateUpdate) false ANone);
   (mk_field "UpdatedAt"%string "updated_at"%string false false None None None false AUpdate)].

Definition schema_t7 : schema :=
  [(mk_field "ID"%string "id"%string false false None None None true ANone);
   (mk_field "Locale"%string "locale"%string false false None None None true ANone);
   (mk_field "Title"%string "title"%string false false None None None false ANone);
   (mk_field "Views"%string "views"%string false false None None None false ANone);
   (mk_field "UpdatedAt"%string "updated_at"%string false false None None None false AUpdate)].

Definition harness_schemas : list schema := [schema_t1; schema_t2; schema_t3; schema_t4; schema_t5; schema_t6; schema_t7].
