(* C16_Spec.v — the property C16 as an executable predicate over ONE observed step
   (table before, what the caller wrote, what came back, table after).  Written from the property
   text: it never runs the model of the finishers (C16_Model.save/create/first_or_init, first_or_create) and it does
   not know about DB.clone: the chain is read with Session/WithContext erased, which is what
   "none of this depends on a Session or WithContext call placed anywhere in the chain" means.
   Shared vocabulary taken from C16_Model: records, get_col, what pairs a condition / an
   Attrs-Assign argument denotes (struct: non-zero fields; map: every key), and when a row
   satisfies a condition.  No proofs here. *)
From Verif Require Import Base C16_Model.
Open Scope Z_scope.

(* ---- what the caller wrote, Session/WithContext erased -------------------------------- *)
Definition ch_conds (ch : list cel) : list cond :=
  flat_map (fun e => match e with EWhere c => [c] | _ => [] end) ch.
Definition ch_attrs (ch : list cel) : list arg :=
  fold_left (fun acc e => match e with EAttrs a => a | _ => acc end) ch [].
Definition ch_assigns (ch : list cel) : list arg :=
  fold_left (fun acc e => match e with EAssign a => a | _ => acc end) ch [].

(* ---- comparisons ---------------------------------------------------------------------- *)
Definition rec_eqb (a b : rec) : bool :=
  forallb (fun c => val_eqb (get_col c a) (get_col c b)) all_cols.
Definition tbl_eqb : table -> table -> bool := list_eqb rec_eqb.
Definition data_cols : list col := [CName; CAge; CEmail; CDel].   (* everything but key and tracked times *)
Definition same_on (cs : list col) (a b : rec) : bool :=
  forallb (fun c => val_eqb (get_col c a) (get_col c b)) cs.
Definition without (k : Z) (t : table) : table := filter (fun r => negb (r_id r =? k)) t.
Definition others_same (k : Z) (t t' : table) : bool := tbl_eqb (without k t) (without k t').
Definition mem_col (c : col) (l : list col) : bool := existsb (col_eqb c) l.
Definition fresh_key (t : table) (k : Z) : bool := (0 <? k) && negb (has_key t k).

(* the values some list of pairs gives for column c *)
Definition keyvals (ps : list (col * val)) (c : col) : list val :=
  map snd (filter (fun p => col_eqb (fst p) c) ps).
(* a stored value agrees with a given one (a given nil/zero stores the zero value) *)
Definition stores (stored given : val) : bool :=
  val_eqb stored given || (is_zero given && is_zero stored).
Definition one_of (stored : val) (given : list val) : bool := existsb (stores stored) given.

(* "a record built from the conditions plus Attrs, with Assign applied": per column, the value
   comes from Assign, else from Attrs, else from the (equality) conditions, else it is zero.
   [skip] = columns not constrained here (key and tracked times of a row that was created). *)
Definition built_ok (cs : list cond) (attrs assigns : list arg) (skip : list col) (ret : rec) : bool :=
  forallb (fun c =>
    let x := get_col c ret in
    match keyvals (flat_map arg_pairs assigns) c,
          keyvals (flat_map arg_pairs attrs) c,
          keyvals (flat_map cond_pairs cs) c with
    | (_ :: _) as l, _, _ => one_of x l
    | [], (_ :: _) as l, _ => one_of x l
    | [], [], (_ :: _) as l => one_of x l
    | [], [], [] => mem_col c skip || is_zero x
    end) all_cols.

(* "return the first match unchanged ... with Assign applied" *)
Definition found_ok (r : rec) (assigns : list arg) (skip : list col) (ret : rec) : bool :=
  forallb (fun c =>
    match keyvals (flat_map arg_pairs assigns) c with
    | [] => mem_col c skip || val_eqb (get_col c ret) (get_col c r)
    | l => one_of (get_col c ret) l
    end) all_cols.

Definition nonempty {A} (l : list A) : bool := match l with [] => false | _ => true end.
Definition opt_rec_is (o : option rec) (r : rec) : bool :=
  match o with Some x => rec_eqb x r | None => false end.

(* ---- the observation of one step ---------------------------------------------------------- *)
Record obs := mk_obs { o_ret : rec; o_ra : Z; o_err : bool; o_writes : Z; o_tbl : table }.

(* Save stores the full value whether or not its key exists (tracked timestamps aside); nothing
   else changes.  Saving again therefore changes nothing but tracked times (see Props). *)
Definition spec_save (t : table) (v : rec) (o : obs) : bool :=
  let k := if r_id v =? 0 then r_id (o_ret o) else r_id v in
  negb (o_err o)
  && ((negb (r_id v =? 0)) || fresh_key t k)
  && match lookup (o_tbl o) k with
     | Some row => same_on data_cols row v
     | None => false
     end
  && others_same k t (o_tbl o)
  && (r_id (o_ret o) =? k) && same_on data_cols (o_ret o) v
  && (o_ra o =? 1).

(* what a rule defines for a colliding stored row [old] ([row] = the row afterwards).  A conditional
   rule (OnConflict.Where) applies only when the STORED row satisfies the condition, otherwise the row
   stays untouched; a TargetWhere predicate on the (non-partial) key index restricts nothing. *)
Fixpoint coll_ok (ru : rule) (v ex old row : rec) (ra : Z) : bool :=
  match ru with
  | RNothing => rec_eqb row old && (ra =? 0)
  | RUpdates cols =>
      forallb (fun c => val_eqb (get_col c row)
                          (if mem_col c cols then get_col c ex else get_col c old)) all_cols
      && (ra =? 1)
  | RAll => same_on data_cols row v && (ra =? 1)
  | RWhere k r => if r_age old <? k then coll_ok r v ex old row ra
                  else rec_eqb row old && (ra =? 0)
  | RTarget _ r => coll_ok r v ex old row ra
  end.

(* Create with an OnConflict rule leaves exactly the rows and column values the rule defines.
   [ex] = the row as it would be inserted: v with zero tracked times replaced by now. *)
Definition spec_upsert (t : table) (now : Z) (ru : rule) (v : rec) (o : obs) : bool :=
  let k := if r_id v =? 0 then r_id (o_ret o) else r_id v in
  let ex := fill_times now v in
  negb (o_err o)
  && others_same k t (o_tbl o)
  && (o_writes o <=? 1)
  && match (if r_id v =? 0 then None else lookup t k), lookup (o_tbl o) k with
     | None, Some row =>           (* no collision: the value is inserted *)
         ((negb (r_id v =? 0)) || fresh_key t k)
         && same_on (data_cols ++ [CCat; CUat]) row ex && (o_ra o =? 1)
     | Some old, Some row => coll_ok ru v ex old row (o_ra o)
     | _, None => false
     end.

(* FirstOrInit never writes; returns the first match with Assign applied, or else a record built
   from the conditions plus Attrs, with Assign applied. *)
Definition spec_init (t : table) (cs : list cond) (attrs assigns : list arg) (o : obs) : bool :=
  negb (o_err o) && tbl_eqb (o_tbl o) t && (o_writes o =? 0)
  && match first_match t cs with
     | Some r => found_ok r assigns [] (o_ret o) && (o_ra o =? 1)
     | None => built_ok cs attrs assigns [] (o_ret o) && (o_ra o =? 0)
     end.

(* FirstOrCreate: same record; writes at most one row: none when a row is found and there is no
   Assign, the found row (Assign applied) when there is, one new row when nothing is found.  An
   error (the built record's key collides with a stored, e.g. soft-deleted, row) writes nothing. *)
Definition spec_foc (t : table) (cs : list cond) (attrs assigns : list arg) (o : obs) : bool :=
  (o_writes o <=? 1)
  && match first_match t cs with
     | Some r =>
         negb (o_err o)
         && if nonempty assigns
            then found_ok r assigns [CUat] (o_ret o)
                 && others_same (r_id r) t (o_tbl o)
                 && opt_rec_is (lookup (o_tbl o) (r_id r)) (o_ret o)
                 && (r_id (o_ret o) =? r_id r)
            else rec_eqb (o_ret o) r && tbl_eqb (o_tbl o) t && (o_writes o =? 0)
     | None =>
         if o_err o then tbl_eqb (o_tbl o) t
         else built_ok cs attrs assigns [CId; CCat; CUat] (o_ret o)
              && fresh_key t (r_id (o_ret o))
              && opt_rec_is (lookup (o_tbl o) (r_id (o_ret o))) (o_ret o)
              && others_same (r_id (o_ret o)) t (o_tbl o)
              && (o_ra o =? 1) && (o_writes o =? 1)
     end.

(* Save of a slice stores every element's full value under its key — the key it carried, or a fresh one
   that is handed back into the caller's element (distinct from the stored keys and from each other) —
   and changes no other row.  With the keys handed back, saving the slice again changes nothing but
   tracked times (each element then is a keyed Save). *)
Definition without_all (ks : list Z) (t : table) : table :=
  filter (fun r => negb (existsb (Z.eqb (r_id r)) ks)) t.
Fixpoint distinctb (l : list Z) : bool :=
  match l with [] => true | x :: r => negb (existsb (Z.eqb x) r) && distinctb r end.
Fixpoint all2b {A B} (f : A -> B -> bool) (la : list A) (lb : list B) : bool :=
  match la, lb with
  | [], [] => true
  | a :: la', b :: lb' => f a b && all2b f la' lb'
  | _, _ => false
  end.
Definition spec_slice (t : table) (vs rets : list rec) (o : obs) : bool :=
  let ids := map r_id rets in
  negb (o_err o)
  && distinctb ids
  && all2b (fun v ret =>
              same_on data_cols ret v
              && (if r_id v =? 0 then fresh_key t (r_id ret) else r_id ret =? r_id v)
              && match lookup (o_tbl o) (r_id ret) with
                 | Some row => same_on data_cols row v
                 | None => false
                 end) vs rets
  && tbl_eqb (without_all ids t) (without_all ids (o_tbl o))
  && (o_ra o =? Z.of_nat (length vs)).

(* Omit(cols).Save(&v): the full value is stored except the omitted columns, which keep what the row
   had (or stay empty in a new row); nothing else changes *)
Definition spec_save_omit (t : table) (os : list col) (v : rec) (o : obs) : bool :=
  let k := if r_id v =? 0 then r_id (o_ret o) else r_id v in
  let old := if r_id v =? 0 then None else lookup t k in
  negb (o_err o)
  && ((negb (r_id v =? 0)) || fresh_key t k)
  && match lookup (o_tbl o) k with
     | Some row =>
         forallb (fun c => if existsb (col_eqb c) os
                           then match old with
                                | Some r => val_eqb (get_col c row) (get_col c r)
                                | None => is_zero (get_col c row)
                                end
                           else val_eqb (get_col c row) (get_col c v)) data_cols
     | None => false
     end
  && others_same k t (o_tbl o)
  && (r_id (o_ret o) =? k) && same_on data_cols (o_ret o) v
  && (o_ra o =? 1).

(* Create + OnConflict rule on a table with a second unique index (e-mails starting with "u"): the rule
   only defines what happens on a collision with its conflict target, the key.  An incoming row (or an
   updated colliding row) whose unique e-mail another row holds is an ERROR that leaves the table
   untouched — not swallowed — unless the rule is DO NOTHING without any conflict target. *)
Fixpoint writes_email (ru : rule) (old : rec) : bool :=
  match ru with
  | RNothing => false
  | RUpdates cols => mem_col CEmail cols
  | RAll => true
  | RWhere k r => (r_age old <? k) && writes_email r old
  | RTarget _ r => writes_email r old
  end.
Definition spec_upsert_u (t : table) (now : Z) (ru : rule) (tgt : bool) (v : rec) (o : obs) : bool :=
  let k := if r_id v =? 0 then r_id (o_ret o) else r_id v in
  let old := if r_id v =? 0 then None else lookup t (r_id v) in
  let clash := uemail (r_email v)
               && existsb (fun r => negb (r_id r =? r_id v) && String.eqb (r_email r) (r_email v)) t in
  match old with
  | None =>
      if clash
      then if untargeted_nothing ru tgt
           then negb (o_err o) && tbl_eqb (o_tbl o) t && (o_ra o =? 0)
           else o_err o && tbl_eqb (o_tbl o) t
      else spec_upsert t now ru v o
  | Some r =>
      if clash && writes_email ru r
      then o_err o && tbl_eqb (o_tbl o) t
      else spec_upsert t now ru v o
  end.

(* Create(&slice) with an OnConflict rule: every element on its own — a keyed element whose key is stored
   is treated as the rule defines (against the row stored BEFORE the call; keys are distinct), any other
   element is inserted (zero-key elements get fresh keys, in order); no other row changes; RowsAffected
   counts the rows inserted or updated. *)
Fixpoint applies (ru : rule) (old : rec) : bool :=      (* does the rule update a colliding row? *)
  match ru with
  | RNothing => false
  | RUpdates _ | RAll => true
  | RWhere k r => (r_age old <? k) && applies r old
  | RTarget _ r => applies r old
  end.
(* [judge_ra] = false for DO NOTHING on a RETURNING dialect, where gorm's read-back bookkeeping also counts
   the elements it skips (RowsAffected is then not the number of rows written) *)
Definition spec_oc_slice (t : table) (now : Z) (ru : rule) (vs : list rec) (judge_ra : bool) (o : obs) : bool :=
  let keyed := filter (fun v => negb (r_id v =? 0)) vs in
  let zero := filter (fun v => r_id v =? 0) vs in
  let kids := map r_id keyed in
  let news := filter (fun r => negb (has_key t (r_id r)) && negb (existsb (Z.eqb (r_id r)) kids)) (o_tbl o) in
  negb (o_err o)
  && forallb (fun v =>
       let ex := fill_times now v in
       match lookup t (r_id v), lookup (o_tbl o) (r_id v) with
       | None, Some row => same_on (data_cols ++ [CCat; CUat]) row ex
       | Some old, Some row => coll_ok ru v ex old row (if applies ru old then 1 else 0)
       | _, None => false
       end) keyed
  && all2b (fun v row => same_on (data_cols ++ [CCat; CUat]) row (fill_times now v) && (0 <? r_id row)) zero news
  && tbl_eqb (without_all (kids ++ map r_id news) t) (without_all (kids ++ map r_id news) (o_tbl o))
  && (negb judge_ra ||
      (o_ra o =? Z.of_nat (length (filter (fun v => match lookup t (r_id v) with
                                                    | Some old => negb (r_id v =? 0) && applies ru old
                                                    | None => true
                                                    end) vs)))).

(* Create from MAP values with an OnConflict rule: the map names the columns it gives.  A map without a
   (stored) key is inserted: the named columns hold the map's values, every other data column stays empty,
   no tracked time is filled in.  A map whose key is stored is treated as the rule defines; "update all" means
   all the columns the map names (created_at aside, tracked update time aside): a data column it does not name
   keeps the stored value, and with no column to update nothing is written.  [ks] = the columns of the call
   (a slice of maps: the union of the keys; a map lacking one gives NULL). *)
Fixpoint mapplies (ru : rule) (ks : list col) (old : rec) : bool :=
  match ru with
  | RNothing => false
  | RUpdates _ => true
  | RAll => existsb (fun c => mem_col c ks) (data_cols ++ [CUat])
  | RWhere k r => (r_age old <? k) && mapplies r ks old
  | RTarget _ r => mapplies r ks old
  end.
Fixpoint mcoll_ok (ru : rule) (ks : list col) (ex old row : rec) : bool :=
  match ru with
  | RNothing => rec_eqb row old
  | RUpdates cols =>
      forallb (fun c => val_eqb (get_col c row)
                          (if mem_col c cols then get_col c ex else get_col c old)) all_cols
  | RAll =>
      forallb (fun c => val_eqb (get_col c row)
                          (if mem_col c ks then get_col c ex else get_col c old)) data_cols
      && same_on [CId; CCat] row old
      && (mapplies RAll ks old || rec_eqb row old)
  | RWhere k r => if r_age old <? k then mcoll_ok r ks ex old row else rec_eqb row old
  | RTarget _ r => mcoll_ok r ks ex old row
  end.
Definition spec_oc_maps (t : table) (ru : rule) (ms : list (list (col * val))) (judge_ra : bool) (o : obs) : bool :=
  let ks := map_keys ms in
  let exs := map map_rec ms in
  let keyed := filter (fun v => negb (r_id v =? 0)) exs in
  let zero := filter (fun v => r_id v =? 0) exs in
  let kids := map r_id keyed in
  let news := filter (fun r => negb (has_key t (r_id r)) && negb (existsb (Z.eqb (r_id r)) kids)) (o_tbl o) in
  let ins_cols := data_cols ++ filter (fun c => mem_col c ks) [CCat; CUat] in
  negb (o_err o) && (o_writes o =? 1)
  && forallb (fun ex =>
       match lookup t (r_id ex), lookup (o_tbl o) (r_id ex) with
       | None, Some row => same_on ins_cols row ex
       | Some old, Some row => mcoll_ok ru ks ex old row
       | _, None => false
       end) keyed
  && all2b (fun ex row => same_on ins_cols row ex && (0 <? r_id row)) zero news
  && tbl_eqb (without_all (kids ++ map r_id news) t) (without_all (kids ++ map r_id news) (o_tbl o))
  && (negb judge_ra ||
      (o_ra o =? Z.of_nat (length (filter (fun ex => match lookup t (r_id ex) with
                                                     | Some old => negb (r_id ex =? 0) && mapplies ru ks old
                                                     | None => true
                                                     end) exs)))).

(* ---- a model type with a COMPOSITE primary key (id, region): the key is the PAIR ------------------------ *)
Definition same_key (a b : rec) : bool := (r_id a =? r_id b) && String.eqb (r_name a) (r_name b).
Definition cothers (v : rec) (t : table) : table := filter (fun r => negb (same_key v r)) t.
Definition crow (t : table) (v : rec) : option rec := find (same_key v) t.
Definition cdata : list col := [CAge; CEmail].
(* Save stores the full value under its (id, region); a row sharing only one key member is untouched *)
Definition spec_csave (t : table) (v : rec) (o : obs) : bool :=
  negb (o_err o)
  && match crow (o_tbl o) v with Some row => same_on cdata row v | None => false end
  && tbl_eqb (cothers v t) (cothers v (o_tbl o))
  && (length (o_tbl o) =? length t + (match crow t v with Some _ => 0 | None => 1 end))%nat.
Definition spec_cslice (t : table) (vs : list rec) (o : obs) : bool :=
  negb (o_err o)
  && forallb (fun v => match crow (o_tbl o) v with Some row => same_on cdata row v | None => false end) vs
  && tbl_eqb (filter (fun r => negb (existsb (fun v => same_key v r) vs)) t)
             (filter (fun r => negb (existsb (fun v => same_key v r) vs)) (o_tbl o)).
Fixpoint ccoll_ok (ru : rule) (v old row : rec) : bool :=
  match ru with
  | RNothing => rec_eqb row old
  | RUpdates cols => forallb (fun c => val_eqb (get_col c row)
                                         (if mem_col c cols then get_col c v else get_col c old)) all_cols
  | RAll => same_on cdata row v
  | RWhere k r => if r_age old <? k then ccoll_ok r v old row else rec_eqb row old
  | RTarget _ r => ccoll_ok r v old row
  end.
Definition spec_cupsert (t : table) (ru : rule) (v : rec) (o : obs) : bool :=
  negb (o_err o)
  && tbl_eqb (cothers v t) (cothers v (o_tbl o))
  && match crow t v, crow (o_tbl o) v with
     | None, Some row => rec_eqb row v && (o_ra o =? 1)
     | Some old, Some row => ccoll_ok ru v old row
     | _, None => false
     end.
Definition spec_cfoc (t : table) (id : Z) (region : string) (a : option string) (q : option Z) (o : obs) : bool :=
  let probe := mk_rec id region 0 "" 0 0 None in
  negb (o_err o) && (o_writes o <=? 1)
  && tbl_eqb (cothers probe t) (cothers probe (o_tbl o))
  && match crow t probe, crow (o_tbl o) probe with
     | Some r, Some row =>
         rec_eqb row (o_ret o)
         && match q with
            | None => rec_eqb row r && (o_writes o =? 0)
            | Some z => (r_age row =? z) && String.eqb (r_email row) (r_email r)
            end
     | None, Some row =>
         rec_eqb row (o_ret o)
         && (r_age row =? match q with Some z => z | None => 0 end)
         && String.eqb (r_email row) (match a with Some n => n | None => "" end)
     | _, None => false
     end.

Definition spec_step (t : table) (now : Z) (ch : list cel) (f : fin) (o : obs) : bool :=
  match f with
  | FSave v => spec_save t v o
  | FCreateOC ru v => spec_upsert t now ru v o
  | FInit ic => spec_init t (ch_conds ch ++ ic) (ch_attrs ch) (ch_assigns ch) o
  | FFoc ic => spec_foc t (ch_conds ch ++ ic) (ch_attrs ch) (ch_assigns ch) o
  | FSaveSlice _ => false       (* needs the slice handed back: see spec_case *)
  | FSaveOmit os v => spec_save_omit t os v o
  | FCreateU ru tgt v => spec_upsert_u t now ru tgt v o
  | FCSave v => spec_csave t v o
  | FCSaveSlice vs => spec_cslice t vs o
  | FCCreateOC ru v => spec_cupsert t ru v o
  | FCFoc id region a q => spec_cfoc t id region a q o
  | FCreateOCSlice ru _ vs => spec_oc_slice t now ru vs true o
  | FCreateMaps ru ms => spec_oc_maps t ru ms true o
  end.

(* [rets] = the caller's slice after the call (Save of a slice), [] otherwise *)
Definition spec_case (t : table) (now : Z) (ch : list cel) (f : fin) (rets : list rec) (judge_ra : bool)
           (o : obs) : bool :=
  match f with
  | FCreateOCSlice ru _ vs => spec_oc_slice t now ru vs judge_ra o
  | FSaveSlice vs => spec_slice t vs rets o
  | FCreateMaps ru ms => spec_oc_maps t ru ms judge_ra o
  | _ => spec_step t now ch f o
  end.

(* ---- the domain of the theorem C16_Proofs3.model_meets_spec, as decidable checks (evaluated on
        every case by C16_Check, so that the hypotheses are validated against what was executed) ---- *)
(* a value of the column's kind (the domain: type-correct conditions and Attrs/Assign values) *)
Definition typed (p : col * val) : bool :=
  match fst p, snd p with
  | (CId | CAge | CCat | CUat | CDel), (VInt _ | VNull) => true
  | (CName | CEmail), (VStr _ | VNull) => true
  | _, _ => false
  end.


(* Attrs/Assign arguments: the key-value form stands alone (domain) *)
Definition kv_alone (l : list arg) : bool :=
  match l with
  | [AKV _ _] => true
  | _ => forallb (fun a => match a with AKV _ _ => false | _ => true end) l
  end.


Definition args_typed (l : list arg) : bool := forallb typed (flat_map arg_pairs l).
Definition conds_typed (cs : list cond) : bool := forallb typed (flat_map cond_pairs cs).


Definition no_del (ps : list (col * val)) : bool :=
  forallb (fun p => negb (col_eqb (fst p) CDel)) ps.


(* domain: Attrs/Assign name data columns only; conditions name key and data columns, keys positive *)
Definition data_key (c : col) : bool := match c with CName | CAge | CEmail => true | _ => false end.
Definition args_data (l : list arg) : bool := forallb (fun p => data_key (fst p)) (flat_map arg_pairs l).
Definition conds_dom (cs : list cond) : bool :=
  forallb (fun p => match fst p, snd p with
                    | CId, VInt z => 0 <? z
                    | CId, _ => false
                    | c, _ => data_key c
                    end) (flat_map cond_pairs cs).


Definition in_domain (ch : list cel) (f : fin) : bool :=
  match f with
  | FSave _ | FCreateOC _ _ | FSaveOmit _ _ => true
  | FInit ic | FFoc ic =>
      kv_alone (ch_attrs ch) && kv_alone (ch_assigns ch) && negb (unscoped ic)
      && conds_typed (ch_conds ch ++ ic) && args_typed (ch_attrs ch) && args_typed (ch_assigns ch)
      && conds_dom (ch_conds ch ++ ic) && args_data (ch_attrs ch) && args_data (ch_assigns ch)
  | FSaveSlice _ | FCreateU _ _ _ | FCreateOCSlice _ _ _ | FCreateMaps _ _
  | FCSave _ | FCSaveSlice _ | FCCreateOC _ _ | FCFoc _ _ _ _ => false   (* not covered by model_meets_spec; own domains below *)
  end.
Fixpoint distinct_cols (l : list col) : bool :=
  match l with [] => true | c :: r => negb (mem_col c r) && distinct_cols r end.
(* Save of a slice: the non-zero keys are distinct *)
Definition slice_dom (f : fin) : bool :=
  match f with
  | FSaveSlice vs => distinctb (filter (fun k => negb (k =? 0)) (map r_id vs))
  | FSaveOmit os _ => negb (existsb (col_eqb CId) os)      (* the key is never omitted *)
  | FCreateU _ _ _ => true
  | FCSave _ | FCCreateOC _ _ | FCFoc _ _ _ _ => true
  | FCSaveSlice vs => (fix nodup (l : list rec) : bool :=
                         match l with [] => true | v :: r => negb (existsb (same_key v) r) && nodup r end) vs
  | FCreateOCSlice _ _ vs => distinctb (filter (fun k => negb (k =? 0)) (map r_id vs))
  | FCreateMaps _ ms =>
      (* at least one map; every map names a column once, with a value of its kind, a key is positive; the
         keys given are distinct *)
      nonempty ms
      && forallb (fun m => forallb typed m && distinct_cols (map fst m)
                           && forallb (fun p => match fst p, snd p with
                                                | CId, VInt z => 0 <? z
                                                | CId, _ => false
                                                | _, _ => true
                                                end) m) ms
      && distinctb (filter (fun k => negb (k =? 0)) (map (fun m => r_id (map_rec m)) ms))
  | _ => false
  end.

Definition is_composite (f : fin) : bool :=
  match f with FCSave _ | FCSaveSlice _ | FCCreateOC _ _ | FCFoc _ _ _ _ => true | _ => false end.

(* keys strictly increasing: the table as the harness dumps it (ORDER BY id) *)
Fixpoint sortedb (t : table) : bool :=
  match t with
  | a :: ((b :: _) as r) => (r_id a <? r_id b) && sortedb r
  | _ => true
  end.
