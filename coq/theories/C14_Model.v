(* C14_Model.v — the prepared-statement cache of prepare_stmt.go as a small-step interleaving
   semantics.  Modelled code, line by line:
     PreparedStmtDB.prepare            pcs P0..P11c   (RLock check, Lock double check, nil-map
                                                       test, publish in-progress entry, driver
                                                       Prepare, store / delete-by-text, deferred
                                                       close(prepared))
     PreparedStmtDB/PreparedStmtTX .ExecContext/.QueryContext/.QueryRowContext
                                       pcs X0..X2b    (use of the *copy* returned by prepare,
                                                       ErrBadConn branch: go stmt.Close();
                                                       delete(Stmts, query) under Mux.Lock)
     PreparedStmtDB.Reset / Close      pcs R0,R1 / K0,K1 (closer goroutine per entry)
     closer goroutine                  pcs C0,C1      (<-s.prepared; if s.Stmt != nil { Close })
     go stmt.Close()                   pc  D0
   One step = one atomic action of one goroutine.  A section under Mux.Lock is two steps
   (acquire; body+release): bodies contain no blocking operation.  Driver outcomes (Prepare
   ok/fail, Exec ok/err/ErrBadConn) are choices of the environment.  database/sql facts used:
   a closed pool-level *sql.Stmt answers "sql: statement is closed" before reaching the driver;
   Tx.StmtContext re-prepares a closed or Tx-bound statement instead of failing.
   No proofs here. *)
From Verif Require Import Base.

(* ---- programs ---------------------------------------------------------------------- *)
(* OExec q tx evict : one Exec/Query (evict = true) or QueryRow (evict = false: no ErrBadConn
   branch in the code) of statement text [q], through PreparedStmtTX when [tx]. *)
Inductive op := OExec (q : nat) (tx : bool) (evict : bool) | OReset | OClose.

Inductive result :=
| ROk          (* rows as without the cache / Reset, Close returned *)
| RErrPrep     (* the error of a failed Prepare *)
| RErrInvalid  (* gorm.ErrInvalidDB: cache closed *)
| RErrClosed   (* "sql: statement is closed" *)
| RErrBad      (* driver.ErrBadConn reported by the driver *)
| RErrOther    (* another error reported by the driver for the execution *)
| RPanic       (* QueryRowContext swallowed the error of prepare and returned an empty *sql.Row:
                  Row.Err() is nil and Row.Scan dereferences a nil *sql.Rows *)
| RNilStmt.    (* a nil *sql.Stmt came out of the cache (never produced: C14_Proofs) *)

Inductive choice := CNone | CPrepOk | CPrepFail | CExecOk | CExecErr | CExecBad.

Inductive pc :=
| Idle
| P0 | P1 | P3 (e : nat) | P5 | P6
| P9 (e : nat) | P9w (e : nat)
| P10 (e s : nat) | P10b (e s : nat) | P10c (e s : nat)
| P11 (e : nat) | P11b (e : nat) | P11c (e : nat)
| X0 (s : nat) | X1 (s : nat) | X1r (s : nat) (o : choice) | X2 (s : nat) | X2b (s : nat)
| R0 | R1 | K0 | K1
| C0 (e : nat) | C1 (e : nat) | D0 (s : nat)
| Ret (r : result).   (* the operation returns r to its caller (a local step: the harness logs it) *)

(* visible events: the points the harness controls or records *)
Inductive vev :=
| VStart (t : nat)
| VPrepCall (t q : nat) (tx : bool)
| VPrepRet (t : nat) (ok : bool)
| VExecCall (t : nat)
| VExecRet (t : nat) (o : choice)
| VEnd (t : nat) (r : result).

Record entry := mkE { e_q : nat; e_tx : bool; e_stmt : option nat; e_err : bool; e_done : bool }.
Record thread := mkT { t_pc : pc; t_ops : list op; t_res : list result }.

Record state := mkS {
  s_map : option (list (nat * nat));   (* Stmts: text -> entry id; None = nil map *)
  s_w : option nat;                    (* Mux: writer (thread id) *)
  s_r : nat;                           (* Mux: number of readers *)
  s_ents : list entry;                 (* every Stmt ever allocated, by id *)
  s_thr : list thread;                 (* goroutines, by id; closers are appended *)
  s_nstmt : nat;                       (* next driver statement id *)
  s_prep : list (nat * nat * bool);    (* driver log: (stmt, text, tx-bound) prepared ok *)
  s_closed : list nat;                 (* driver log: statements closed *)
  (* ghost history, read by the theorems and by the checker's counters only *)
  s_calls : list (nat * bool);         (* Prepare calls issued: (text, tx) *)
  s_fails : list nat;                  (* texts whose Prepare failed *)
  s_evicts : list nat;                 (* texts evicted by an ErrBadConn branch *)
  s_upg : list nat;                    (* texts whose Tx-only entry was replaced (upgrade) *)
  s_cuts : nat;                        (* Reset/Close bodies executed *)
  s_stolen : bool;                     (* a delete-by-text removed somebody else's entry *)
  s_everclosed : bool;                 (* a Close body was executed *)
  (* parameter of the model, constant along a run: false = prepare_stmt.go as it is; true = the
     proposed patch (a delete(Stmts, query) only removes the entry the deleting call created,
     resp. the entry that carries the statement the deleting call used) *)
  s_guard : bool
}.

(* ---- helpers ------------------------------------------------------------------------ *)
(* out-of-range entry ids never occur (C14_Proofs5); the default reads as a failed, finished entry *)
Definition dflt_entry := mkE 0 false None true true.
Definition dflt_thread := mkT Idle [] [].
Definition ent (s : state) (e : nat) : entry := nth e (s_ents s) dflt_entry.
Definition thr (s : state) (t : nat) : thread := nth t (s_thr s) dflt_thread.

Fixpoint upd {A} (l : list A) (n : nat) (x : A) : list A :=
  match l, n with
  | [], _ => []
  | _ :: r, 0 => x :: r
  | y :: r, S n' => y :: upd r n' x
  end.

Definition lookup (m : list (nat * nat)) (q : nat) : option nat :=
  match find (fun p => fst p =? q) m with Some p => Some (snd p) | None => None end.
Definition remove_key (q : nat) (m : list (nat * nat)) := filter (fun p => negb (fst p =? q)) m.
Definition insert (q e : nat) (m : list (nat * nat)) := (q, e) :: remove_key q m.
Definition mlookup (m : option (list (nat * nat))) (q : nat) : option nat :=
  match m with Some l => lookup l q | None => None end.

Definition cur_q (th : thread) := match t_ops th with OExec q _ _ :: _ => q | _ => 0 end.
Definition cur_tx (th : thread) := match t_ops th with OExec _ tx _ :: _ => tx | _ => false end.
Definition cur_evict (th : thread) := match t_ops th with OExec _ _ ev :: _ => ev | _ => false end.

Definition servable (en : entry) (reqtx : bool) := negb (e_tx en) || reqtx.
Definition lock_free (s : state) := match s_w s with None => s_r s =? 0 | Some _ => false end.
Definition memb (x : nat) (l : list nat) := existsb (Nat.eqb x) l.

Definition set_pc (th : thread) (p : pc) := mkT p (t_ops th) (t_res th).
Definition finish (th : thread) (r : result) := mkT Idle (tl (t_ops th)) (t_res th ++ [r]).

(* functional record updates *)
Definition w_thr (s : state) (l : list thread) :=
  mkS (s_map s) (s_w s) (s_r s) (s_ents s) l (s_nstmt s) (s_prep s) (s_closed s)
      (s_calls s) (s_fails s) (s_evicts s) (s_upg s) (s_cuts s) (s_stolen s) (s_everclosed s) (s_guard s).
Definition w_lock (s : state) (w : option nat) (r : nat) :=
  mkS (s_map s) w r (s_ents s) (s_thr s) (s_nstmt s) (s_prep s) (s_closed s)
      (s_calls s) (s_fails s) (s_evicts s) (s_upg s) (s_cuts s) (s_stolen s) (s_everclosed s) (s_guard s).
Definition w_map (s : state) (m : option (list (nat * nat))) :=
  mkS m (s_w s) (s_r s) (s_ents s) (s_thr s) (s_nstmt s) (s_prep s) (s_closed s)
      (s_calls s) (s_fails s) (s_evicts s) (s_upg s) (s_cuts s) (s_stolen s) (s_everclosed s) (s_guard s).
Definition w_ents (s : state) (l : list entry) :=
  mkS (s_map s) (s_w s) (s_r s) l (s_thr s) (s_nstmt s) (s_prep s) (s_closed s)
      (s_calls s) (s_fails s) (s_evicts s) (s_upg s) (s_cuts s) (s_stolen s) (s_everclosed s) (s_guard s).
Definition w_drv (s : state) (n : nat) (p : list (nat * nat * bool)) (c : list nat) :=
  mkS (s_map s) (s_w s) (s_r s) (s_ents s) (s_thr s) n p c
      (s_calls s) (s_fails s) (s_evicts s) (s_upg s) (s_cuts s) (s_stolen s) (s_everclosed s) (s_guard s).
Definition w_ghost (s : state) calls fails evicts upg cuts stolen everclosed :=
  mkS (s_map s) (s_w s) (s_r s) (s_ents s) (s_thr s) (s_nstmt s) (s_prep s) (s_closed s)
      calls fails evicts upg cuts stolen everclosed (s_guard s).

Definition set_thr (s : state) (t : nat) (th : thread) := w_thr s (upd (s_thr s) t th).
Definition spawn (s : state) (l : list thread) := w_thr s (s_thr s ++ l).
Definition set_ent (s : state) (e : nat) (en : entry) := w_ents s (upd (s_ents s) e en).

Definition closer_of (p : nat * nat) := mkT (C0 (snd p)) [] [].

(* ---- the step function --------------------------------------------------------------- *)
(* [stepL s t c] = the state after goroutine [t] performs its next atomic action with the
   environment's choice [c], and the event the harness sees ([None] = internal).  [None] =
   the action is not enabled (blocked on the lock or on a channel, goroutine finished, or the
   choice does not fit the action). *)
Definition is_tau (c : choice) : bool := match c with CNone => true | _ => false end.
Definition act := state -> nat -> thread -> choice -> option (state * option vev).
(* internal move of goroutine [t] to program counter [p] *)
Definition goto (s : state) (t : nat) (th : thread) (p : pc) : option (state * option vev) :=
  Some (set_thr s t (set_pc th p), None).
(* the operation is over with result [r]; returning it to the caller is the next (local) step *)
Definition ret (s : state) (t : nat) (th : thread) (r : result) := goto s t th (Ret r).
(* an error of prepare: returned by Exec/Query, swallowed by QueryRow (`return &sql.Row{}`) *)
Definition perr (th : thread) (r : result) : result := if cur_evict th then r else RPanic.

(* Each program counter's action is its own definition [a_<pc>]; [step_th] dispatches. *)
Definition a_Idle : act := fun s t th c =>
  if is_tau c then
    match t_ops th with
    | [] => None
    | OExec _ _ _ :: _ => Some (set_thr s t (set_pc th P0), Some (VStart t))
    | OReset :: _ => Some (set_thr s t (set_pc th R0), Some (VStart t))
    | OClose :: _ => Some (set_thr s t (set_pc th K0), Some (VStart t))
    end
  else None.

(* db.Mux.RLock() *)
Definition a_P0 : act := fun s t th c =>
  if is_tau c then match s_w s with
    | None => Some (set_thr (w_lock s None (S (s_r s))) t (set_pc th P1), None)
    | Some _ => None end else None.

(* stmt, ok := db.Stmts[query]; ok && (!stmt.Transaction || isTransaction); db.Mux.RUnlock() *)
Definition a_P1 : act := fun s t th c =>
  let q := cur_q th in
  let tx := cur_tx th in
  if is_tau c then
    let s1 := w_lock s (s_w s) (pred (s_r s)) in
    match mlookup (s_map s) q with
    | Some e => if servable (ent s e) tx
                then Some (set_thr s1 t (set_pc th (P3 e)), None)
                else Some (set_thr s1 t (set_pc th P5), None)
    | None => Some (set_thr s1 t (set_pc th P5), None)
    end else None.

(* <-stmt.prepared; if stmt.prepareErr != nil { return err }; return *stmt *)
Definition a_P3 (e : nat) : act := fun s t th c =>
  if is_tau c then
    if e_done (ent s e) then
      if e_err (ent s e) then ret s t th (perr th RErrPrep)
      else match e_stmt (ent s e) with
           | Some st => goto s t th (X0 st)
           | None => ret s t th RNilStmt
           end
    else None else None.

(* db.Mux.Lock() *)
Definition a_P5 : act := fun s t th c =>
  if is_tau c then if lock_free s then Some (set_thr (w_lock s (Some t) 0) t (set_pc th P6), None)
    else None else None.

(* double check; nil-map test; publish the in-progress entry; db.Mux.Unlock() *)
Definition a_P6 : act := fun s t th c =>
  let q := cur_q th in
  let tx := cur_tx th in
  if is_tau c then
    let s1 := w_lock s None (s_r s) in
    match mlookup (s_map s) q with
    | Some e =>
      if servable (ent s e) tx then Some (set_thr s1 t (set_pc th (P3 e)), None)
      else
        let e' := length (s_ents s) in
        let s2 := w_ents s1 (s_ents s ++ [mkE q tx None false false]) in
        let s3 := w_map s2 (option_map (insert q e') (s_map s)) in
        let s4 := w_ghost s3 (s_calls s) (s_fails s) (s_evicts s) (s_upg s ++ [q])
                          (s_cuts s) (s_stolen s) (s_everclosed s) in
        Some (set_thr s4 t (set_pc th (P9 e')), None)
    | None =>
      match s_map s with
      | None => ret s1 t th (perr th RErrInvalid)
      | Some m =>
        let e' := length (s_ents s) in
        let s2 := w_ents s1 (s_ents s ++ [mkE q tx None false false]) in
        let s3 := w_map s2 (Some (insert q e' m)) in
        Some (set_thr s3 t (set_pc th (P9 e')), None)
      end
    end else None.

(* conn.PrepareContext(ctx, query): call *)
Definition a_P9 (e : nat) : act := fun s t th c =>
  let q := cur_q th in
  let tx := cur_tx th in
  if is_tau c then
    let s1 := w_ghost s (s_calls s ++ [(q, tx)]) (s_fails s) (s_evicts s) (s_upg s)
                      (s_cuts s) (s_stolen s) (s_everclosed s) in
    Some (set_thr s1 t (set_pc th (P9w e)), Some (VPrepCall t q tx))
    else None.

(* conn.PrepareContext: return *)
Definition a_P9w (e : nat) : act := fun s t th c =>
  let q := cur_q th in
  let tx := cur_tx th in
  match c with
  | CPrepOk =>
    let st := s_nstmt s in
    let s1 := w_drv s (S st) (s_prep s ++ [(st, q, tx)]) (s_closed s) in
    Some (set_thr s1 t (set_pc th (P10 e st)), Some (VPrepRet t true))
  | CPrepFail =>
    let en := ent s e in
    let s1 := set_ent s e (mkE (e_q en) (e_tx en) (e_stmt en) true (e_done en)) in
    let s2 := w_ghost s1 (s_calls s) (s_fails s ++ [q]) (s_evicts s) (s_upg s)
                      (s_cuts s) (s_stolen s) (s_everclosed s) in
    Some (set_thr s2 t (set_pc th (P11 e)), Some (VPrepRet t false))
  | _ => None
  end.

(* db.Mux.Lock(); cacheStmt.Stmt = stmt; db.Mux.Unlock() *)
Definition a_P10 (e : nat) (st : nat) : act := fun s t th c =>
  if is_tau c then if lock_free s then Some (set_thr (w_lock s (Some t) 0) t (set_pc th (P10b e st)), None)
    else None else None.

Definition a_P10b (e : nat) (st : nat) : act := fun s t th c =>
  if is_tau c then
    let en := ent s e in
    let s1 := set_ent (w_lock s None (s_r s)) e (mkE (e_q en) (e_tx en) (Some st) (e_err en) (e_done en)) in
    Some (set_thr s1 t (set_pc th (P10c e st)), None)
    else None.

(* deferred close(cacheStmt.prepared); return cacheStmt *)
Definition a_P10c (e : nat) (st : nat) : act := fun s t th c =>
  if is_tau c then
    let en := ent s e in
    let s1 := set_ent s e (mkE (e_q en) (e_tx en) (e_stmt en) (e_err en) true) in
    Some (set_thr s1 t (set_pc th (X0 st)), None)
    else None.

(* cacheStmt.prepareErr = err; db.Mux.Lock(); delete(db.Stmts, query); db.Mux.Unlock() *)
Definition a_P11 (e : nat) : act := fun s t th c =>
  if is_tau c then if lock_free s then Some (set_thr (w_lock s (Some t) 0) t (set_pc th (P11b e)), None)
    else None else None.

Definition a_P11b (e : nat) : act := fun s t th c =>
  let q := cur_q th in
  if is_tau c then
    let s1 := w_lock s None (s_r s) in
    let del := w_map s1 (option_map (remove_key q) (s_map s)) in
    match mlookup (s_map s) q with
    | Some e' =>
      if e' =? e then goto del t th (P11c e)                 (* the slot still holds my entry *)
      else if s_guard s then goto s1 t th (P11c e)           (* patched code: leave it alone *)
      else goto (w_ghost del (s_calls s) (s_fails s) (s_evicts s) (s_upg s)
                         (s_cuts s) true (s_everclosed s)) t th (P11c e)
                                                             (* somebody else's entry is deleted *)
    | None => goto del t th (P11c e)
    end
    else None.

Definition a_P11c (e : nat) : act := fun s t th c =>
  if is_tau c then
    let en := ent s e in
    let s1 := set_ent s e (mkE (e_q en) (e_tx en) (e_stmt en) (e_err en) true) in
    ret s1 t th (perr th RErrPrep)
    else None.

(* stmt.ExecContext / tx.Tx.StmtContext(ctx, stmt.Stmt).ExecContext: call *)
Definition a_X0 (st : nat) : act := fun s t th c =>
  let tx := cur_tx th in
  if is_tau c then
    if negb tx && memb st (s_closed s) then ret s t th RErrClosed
    else Some (set_thr s t (set_pc th (X1 st)), Some (VExecCall t))
    else None.

(* the driver returns *)
Definition a_X1 (st : nat) : act := fun s t th c =>
  match c with
  | CExecOk | CExecErr | CExecBad => Some (set_thr s t (set_pc th (X1r st c)), Some (VExecRet t c))
  | _ => None
  end.

Definition a_X1r (st : nat) (o : choice) : act := fun s t th c =>
  if is_tau c then
    match o with
    | CExecBad => if cur_evict th then goto s t th (X2 st) else ret s t th RErrBad
    | CExecErr => ret s t th RErrOther
    | _ => ret s t th ROk
    end else None.

(* errors.Is(err, driver.ErrBadConn): db.Mux.Lock(); defer Unlock; go stmt.Close(); delete(db.Stmts, query) *)
Definition a_X2 (st : nat) : act := fun s t th c =>
  if is_tau c then if lock_free s then Some (set_thr (w_lock s (Some t) 0) t (set_pc th (X2b st)), None)
    else None else None.

Definition a_X2b (st : nat) : act := fun s t th c =>
  let q := cur_q th in
  if is_tau c then
    let s1 := w_lock s None (s_r s) in
    let ev stolen := w_ghost s1 (s_calls s) (s_fails s) (s_evicts s ++ [q]) (s_upg s)
                             (s_cuts s) stolen (s_everclosed s) in
    let del s0 := w_map s0 (option_map (remove_key q) (s_map s)) in
    let fin s0 := Some (spawn (set_thr s0 t (set_pc th (Ret RErrBad))) [mkT (D0 st) [] []], None) in
    match mlookup (s_map s) q with
    | Some e' =>
      if option_eqb Nat.eqb (e_stmt (ent s e')) (Some st) then fin (del (ev (s_stolen s)))
                                                             (* the slot holds the statement I used *)
      else if s_guard s then fin (ev (s_stolen s))           (* patched code: leave it alone *)
      else fin (del (ev true))                               (* somebody else's entry is deleted *)
    | None => fin (del (ev (s_stolen s)))
    end
    else None.

(* Reset: Lock; closer per entry; Stmts = make(map); Unlock *)
Definition a_R0 : act := fun s t th c =>
  if is_tau c then if lock_free s then Some (set_thr (w_lock s (Some t) 0) t (set_pc th R1), None)
    else None else None.

Definition a_R1 : act := fun s t th c =>
  if is_tau c then
    let s1 := w_lock s None (s_r s) in
    let cl := match s_map s with Some m => map closer_of m | None => [] end in
    let s2 := w_map s1 (Some []) in
    let s3 := w_ghost s2 (s_calls s) (s_fails s) (s_evicts s) (s_upg s)
                      (S (s_cuts s)) (s_stolen s) (s_everclosed s) in
    Some (spawn (set_thr s3 t (set_pc th (Ret ROk))) cl, None)
    else None.

(* Close: Lock; closer per entry; Stmts = nil; Unlock *)
Definition a_K0 : act := fun s t th c =>
  if is_tau c then if lock_free s then Some (set_thr (w_lock s (Some t) 0) t (set_pc th K1), None)
    else None else None.

Definition a_K1 : act := fun s t th c =>
  if is_tau c then
    let s1 := w_lock s None (s_r s) in
    let cl := match s_map s with Some m => map closer_of m | None => [] end in
    let s2 := w_map s1 None in
    let s3 := w_ghost s2 (s_calls s) (s_fails s) (s_evicts s) (s_upg s)
                      (S (s_cuts s)) (s_stolen s) true in
    Some (spawn (set_thr s3 t (set_pc th (Ret ROk))) cl, None)
    else None.

(* closer goroutine: <-s.prepared; if s.Stmt != nil { s.Close() } *)
Definition a_C0 (e : nat) : act := fun s t th c =>
  if is_tau c then if e_done (ent s e) then goto s t th (C1 e) else None else None.

Definition a_C1 (e : nat) : act := fun s t th c =>
  if is_tau c then
    match e_stmt (ent s e) with
    | Some st => Some (set_thr (w_drv s (s_nstmt s) (s_prep s) (s_closed s ++ [st])) t (set_pc th Idle), None)
    | None => goto s t th Idle
    end else None.

(* go stmt.Close() *)
Definition a_D0 (st : nat) : act := fun s t th c =>
  if is_tau c then
    Some (set_thr (w_drv s (s_nstmt s) (s_prep s) (s_closed s ++ [st])) t (set_pc th Idle), None)
    else None.

(* return to the caller *)
Definition a_Ret (r : result) : act := fun s t th c =>
  if is_tau c then Some (set_thr s t (finish th r), Some (VEnd t r)) else None.

Definition step_th (s : state) (t : nat) (th : thread) (c : choice) : option (state * option vev) :=
  match t_pc th with
  | Idle => a_Idle s t th c
  | P0 => a_P0 s t th c
  | P1 => a_P1 s t th c
  | P3 e => a_P3 e s t th c
  | P5 => a_P5 s t th c
  | P6 => a_P6 s t th c
  | P9 e => a_P9 e s t th c
  | P9w e => a_P9w e s t th c
  | P10 e st => a_P10 e st s t th c
  | P10b e st => a_P10b e st s t th c
  | P10c e st => a_P10c e st s t th c
  | P11 e => a_P11 e s t th c
  | P11b e => a_P11b e s t th c
  | P11c e => a_P11c e s t th c
  | X0 st => a_X0 st s t th c
  | X1 st => a_X1 st s t th c
  | X1r st o => a_X1r st o s t th c
  | X2 st => a_X2 st s t th c
  | X2b st => a_X2b st s t th c
  | R0 => a_R0 s t th c
  | R1 => a_R1 s t th c
  | K0 => a_K0 s t th c
  | K1 => a_K1 s t th c
  | C0 e => a_C0 e s t th c
  | C1 e => a_C1 e s t th c
  | D0 st => a_D0 st s t th c
  | Ret r => a_Ret r s t th c
  end.

Definition stepL (s : state) (t : nat) (c : choice) : option (state * option vev) :=
  match nth_error (s_thr s) t with
  | None => None
  | Some th => step_th s t th c
  end.

Definition step (s : state) (t : nat) (c : choice) : option state :=
  match stepL s t c with Some (s', _) => Some s' | None => None end.

(* reachability: any list of (goroutine, environment choice) *)
Fixpoint run (s : state) (sched : list (nat * choice)) : option state :=
  match sched with
  | [] => Some s
  | (t, c) :: r => match step s t c with Some s' => run s' r | None => None end
  end.

Definition init_g (g : bool) (progs : list (list op)) : state :=
  mkS (Some []) None 0 [] (map (fun p => mkT Idle p []) progs) 0 [] [] [] [] [] [] 0 false false g.
(* the code as it is *)
Definition init (progs : list (list op)) : state := init_g false progs.

Definition thread_done (th : thread) : bool :=
  match t_pc th, t_ops th with Idle, [] => true | _, _ => false end.
Definition all_done (s : state) : bool := forallb thread_done (s_thr s).

(* pool-level statements prepared successfully and never closed *)
Definition leaked (s : state) : list nat :=
  map (fun p => fst (fst p))
      (filter (fun p => negb (snd p) && negb (memb (fst (fst p)) (s_closed s))) (s_prep s)).

Definition count_nat (q : nat) (l : list nat) : nat := length (filter (Nat.eqb q) l).
Definition count_calls (q : nat) (l : list (nat * bool)) : nat :=
  length (filter (fun p => fst p =? q) l).
