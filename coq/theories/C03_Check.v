(* C03_Check.v — correspondence checker for C03: evaluates the model on the inputs the real
   gorm + SQLite just ran (model_agrees) and the property on what gorm returned (spec_holds). *)
From Verif Require Export Base C03_Model.
Open Scope Z_scope.

Fixpoint goval_eqb (a b : goval) : bool :=
  match a, b with
  | GInt x, GInt y => x =? y
  | GBool x, GBool y => Bool.eqb x y
  | GStr x, GStr y => String.eqb x y
  | GBytes x, GBytes y => zlist_eqb x y
  | GOpq x, GOpq y => x =? y
  | GNil, GNil => true
  | GSome x, GSome y => goval_eqb x y
  | GAbsent, GAbsent => true
  | _, _ => false
  end.
Definition dbval_eqb (a b : dbval) : bool :=
  match a, b with
  | DNull, DNull => true
  | DInt x, DInt y => x =? y
  | DText x, DText y => String.eqb x y
  | DBlob x, DBlob y => zlist_eqb x y
  | DOpq x, DOpq y => x =? y
  | _, _ => false
  end.

Fixpoint all2 {A B} (p : A -> B -> bool) (a : list A) (b : list B) : bool :=
  match a, b with
  | [], [] => true
  | x :: a', y :: b' => p x y && all2 p a' b'
  | _, _ => false
  end.
Fixpoint all3 {A B C} (p : A -> B -> C -> bool) (a : list A) (b : list B) (c : list C) : bool :=
  match a, b, c with
  | [], [], [] => true
  | x :: a', y :: b', z :: c' => p x y z && all3 p a' b' c'
  | _, _, _ => false
  end.
Definition is_nil {A} (l : list A) : bool := match l with [] => true | _ => false end.

Record case := mk_case {
  (* schema: the struct tree read from the Go type; what schema.Parse produced *)
  c_tree : list fnode;
  c_dbnames : list (string * list string);     (* observed DBNames with the winning bind path *)
  c_fields : list fdesc;                       (* columns in DBNames order *)
  c_hpk : list bool;                           (* per column: primary key as the STRUCT declares it
                                                  (primaryKey tag, else the field named ID) *)
  c_prio : string; c_prio_hasdef : bool;       (* PrioritizedPrimaryField *)
  (* the call *)
  c_ret : bool; c_rev : bool (* LastInsertIDReversed *); c_op : op; c_base : Z; c_now : Z;
  c_before : list (list goval);
  (* leaves of the Go struct (walked by the harness) that own no column in the parsed schema, with
     their bind paths and the values the records held for them: normally only fields SHADOWED by
     another field mapped to the same column (which field owns the column is decided here, by
     [owner_of] on the struct tree, never by the harness or by gorm's schema) *)
  c_xkinds : list kind; c_xpaths : list (list string); c_xbefore : list (list goval);
  (* observed *)
  o_err : bool;
  o_after : list (list goval);                 (* in-memory records after Create *)
  o_rows : list (list dbval);                  (* row storing record i (by marker); [] = none *)
  o_rowcount : Z;
  o_find : list (list goval); o_xfind : list (list goval); o_first : list (list goval); o_take : list (list goval);
  o_bykey : list (list goval);                 (* First/Take(&T{own key}) without Where *)
  o_mmap : list (list dbval); o_tmap : list (list dbval);
  o_nmaps : Z;
  o_readerrs : Z
}.

Definition rec_eqb (fs : list fdesc) (a b : list goval) : bool :=
  all3 (fun f x y => goval_eqb (norm (fd_kind f) x) (norm (fd_kind f) y)) fs a b.
(* strict: a leaf under a nil embedded pointer must read back under a nil embedded pointer *)
Definition is_absent (v : goval) : bool := match v with GAbsent => true | _ => false end.
Definition rec_eqb_strict (fs : list fdesc) (a b : list goval) : bool :=
  all3 (fun f x y => goval_eqb (norm (fd_kind f) x) (norm (fd_kind f) y)
                     && (negb (fd_embptr f) || Bool.eqb (is_absent x) (is_absent y))) fs a b.
Definition row_eqb (a b : list dbval) : bool := all2 dbval_eqb a b.
Definition is_map_op (o : op) : bool := match o with OpMap | OpMaps | OpMapsPtr => true | _ => false end.

(* ---- half 1: the model, run on the same input, predicts everything observed ---- *)
Definition model_agrees (c : case) : bool :=
  let fs := c_fields c in
  let n := Z.of_nat (length (c_before c)) in
  all2 (fun a b => String.eqb (fst a) (fst b) && list_eqb String.eqb (snd a) (snd b)) (dbnames (c_tree c)) (c_dbnames c)
  && all2 (fun a f => String.eqb (fst a) (fd_col f) && list_eqb String.eqb (snd a) (fd_path f)) (c_dbnames c) fs
  && match create fs (c_now c) (c_ret c) (c_rev c) (c_prio c) (c_prio_hasdef c) (c_op c) (c_base c) (c_before c) with
     | None => o_err c && (o_rowcount c =? 0)
     | Some (after, rows, m) =>
         negb (o_err c)
         && all2 (rec_eqb fs) after (o_after c)
         && all2 row_eqb rows (o_rows c)
         && (o_rowcount c =? n)
         && all2 (rec_eqb fs) (map (read_rec fs) rows) (o_find c)
         && all2 (rec_eqb fs) (map (read_rec fs) rows) (o_first c)
         && all2 (rec_eqb fs) (map (read_rec fs) rows) (o_take c)
         && all2 (rec_eqb fs) (map (read_rec fs) rows) (o_bykey c)
         && all2 (fun r m => is_nil m || row_eqb r m) rows (o_mmap c)
         && all2 row_eqb rows (o_tmap c)
         && (negb (is_map_op (c_op c)) || (o_nmaps c =? m))
     end.

(* ---- half 2: the property, on what gorm returned ---- *)
(* the database value a field value stands for (what a map read of the column must show) *)
Fixpoint uncustom (k : kind) : kind := match k with KCustom k' => uncustom k' | _ => k end.
Fixpoint proj (k : kind) (v : goval) {struct v} : dbval :=
  match v with
  | GAbsent | GNil => DNull
  | GSome v' =>
      match uncustom k with
      | KPtr k' | KNull k' => proj k' v'
      | KSer s (KPtr k') => proj (KSer s k') v'
      | _ => DNull
      end
  | GInt z => match k with KSer SUnix _ => DOpq (z * giga) | _ => DInt z end
  | GBool b => DInt (if b then 1 else 0)
  | GStr s => DText s
  | GBytes b => DBlob b
  | GOpq n => DOpq n
  end.

Definition all_representable (c : case) : bool :=
  forallb (fun r => all2 (fun f v => wtb (fd_kind f) (norm (fd_kind f) v) && in_range (fd_kind f) v) (c_fields c) r)
          (c_before c).

(* does the struct leaf at bind path [p] own its column, by the specification's reading of the struct
   tree?  (a leaf the tree does not know counts as an owner) *)
Definition path_eqb : list string -> list string -> bool := list_eqb String.eqb.
Definition must_keep (tree : list fnode) (p : list string) : bool :=
  match find (fun pc => path_eqb (fst pc) p) (fields_of tree) with
  | Some pc => match owner_of (fields_of tree) (snd pc) with Some q => path_eqb q p | None => true end
  | None => true
  end.
Definition xleaves_kept (c : case) : bool :=
  (length (c_xpaths c) =? length (c_xkinds c))%nat
  && all2 (fun b f => is_nil b ||
             all3 (fun kp x y => negb (must_keep (c_tree c) (snd kp))
                                 || goval_eqb (norm (fst kp) x) (norm (fst kp) y))
                  (combine (c_xkinds c) (c_xpaths c)) b f) (c_xbefore c) (o_xfind c).

Definition spec_holds (c : case) : bool :=
  let fs := c_fields c in
  let n := Z.of_nat (length (c_before c)) in
  if o_err c then negb (all_representable c) || (n =? 0)   (* Create may fail only on unrepresentable or empty input *)
  else
    (o_readerrs c =? 0) && (o_rowcount c =? n)
    (* read back into fresh structs by Find / First / Take: equal field values *)
    && all2 (if is_map_op (c_op c) then rec_eqb fs else rec_eqb_strict fs) (o_after c) (o_find c)
    (* ... for EVERY field of the struct that owns a column, also one the schema gave no column of its
       own; of several fields mapped to one column the owner is the shallowest, first declared *)
    && xleaves_kept c
    && all2 (if is_map_op (c_op c) then rec_eqb fs else rec_eqb_strict fs) (o_after c) (o_first c)
    && all2 (if is_map_op (c_op c) then rec_eqb fs else rec_eqb_strict fs) (o_after c) (o_take c)
    (* ... and by reloading through the record's own primary key *)
    && all2 (if is_map_op (c_op c) then rec_eqb fs else rec_eqb_strict fs) (o_after c) (o_bykey c)
    (* Create keeps every value the caller set; zero values may take defaults / times / keys *)
    && all2 (fun b a => all3 (fun f x y => is_zero (fd_kind f) x || goval_eqb x y) fs b a) (c_before c) (o_after c)
    (* read back into maps *)
    && all2 (fun a m => is_nil m || all3 (fun f x d => dbval_eqb (proj (fd_kind f) x) d) fs a m) (o_after c) (o_mmap c)
    && all2 (fun a m => all3 (fun f x d => dbval_eqb (proj (fd_kind f) x) d) fs a m) (o_after c) (o_tmap c)
    (* every in-memory record carries the primary key of the row that stores it *)
    && all2 (fun a row => all3 (fun fp x d => negb (snd fp) ||
                                          (dbval_eqb (proj (fd_kind (fst fp)) x) d && negb (is_zero (fd_kind (fst fp)) x)))
                                 (combine fs (c_hpk c)) a row) (o_after c) (o_rows c)
    && (length (c_hpk c) =? length fs)%nat
    (* ... in slice order: the slice of maps is not reshaped *)
    && (negb (is_map_op (c_op c)) || (o_nmaps c =? n)).

Definition check_case (c : case) : N := code_of (model_agrees c) (spec_holds c).

(* diagnostics (not used by the verdict): the conjuncts of the two halves, in order *)
Definition spec_parts (c : case) : list bool :=
  let fs := c_fields c in
  let n := Z.of_nat (length (c_before c)) in
  [ o_err c; all_representable c; (o_readerrs c =? 0); (o_rowcount c =? n);
    all2 (rec_eqb fs) (o_after c) (o_find c) && xleaves_kept c;
    all2 (rec_eqb fs) (o_after c) (o_first c);
    all2 (rec_eqb fs) (o_after c) (o_take c) && all2 (rec_eqb fs) (o_after c) (o_bykey c);
    all2 (fun b a => all3 (fun f x y => is_zero (fd_kind f) x || goval_eqb x y) fs b a) (c_before c) (o_after c);
    all2 (fun a m => is_nil m || all3 (fun f x d => dbval_eqb (proj (fd_kind f) x) d) fs a m) (o_after c) (o_mmap c);
    all2 (fun a m => all3 (fun f x d => dbval_eqb (proj (fd_kind f) x) d) fs a m) (o_after c) (o_tmap c);
    all2 (fun a row => all3 (fun fp x d => negb (snd fp) ||
                                          (dbval_eqb (proj (fd_kind (fst fp)) x) d && negb (is_zero (fd_kind (fst fp)) x)))
                                 (combine fs (c_hpk c)) a row) (o_after c) (o_rows c);
    (negb (is_map_op (c_op c)) || (o_nmaps c =? n)) ].
Definition model_parts (c : case) : list bool :=
  let fs := c_fields c in
  let n := Z.of_nat (length (c_before c)) in
  [ all2 (fun a b => String.eqb (fst a) (fst b) && list_eqb String.eqb (snd a) (snd b)) (dbnames (c_tree c)) (c_dbnames c);
    all2 (fun a f => String.eqb (fst a) (fd_col f) && list_eqb String.eqb (snd a) (fd_path f)) (c_dbnames c) fs ] ++
  match create fs (c_now c) (c_ret c) (c_rev c) (c_prio c) (c_prio_hasdef c) (c_op c) (c_base c) (c_before c) with
  | None => [false; o_err c; (o_rowcount c =? 0)]
  | Some (after, rows, m) =>
      [ true; negb (o_err c); all2 (rec_eqb fs) after (o_after c); all2 row_eqb rows (o_rows c);
        (o_rowcount c =? n);
        all2 (rec_eqb fs) (map (read_rec fs) rows) (o_find c);
        all2 (rec_eqb fs) (map (read_rec fs) rows) (o_first c);
        all2 (rec_eqb fs) (map (read_rec fs) rows) (o_take c);
        all2 (fun r m => is_nil m || row_eqb r m) rows (o_mmap c);
        all2 row_eqb rows (o_tmap c);
        (negb (is_map_op (c_op c)) || (o_nmaps c =? m)) ]
  end.
