(* C01_Proofs5.v — main induction, part 1: unfolding equations and list lemmas. *)
From Verif Require Import Base C01_Model C01_Stmt C01_Spec C01_Ind C01_Proofs C01_Proofs2 C01_Proofs3 C01_Proofs4.

Section Main.
Variable numbered : bool.
Notation B := (bval numbered).

(* top-level copies of the local functions of [bval] *)
Definition par_of (e : tinfo) (x : val) : pieces :=
  match x with
  | VList _ [] => [PV SNull]
  | VList LU8 _ => B e x
  | VList _ l => sepc [PC ","] (map (B e) l)
  | VS s => scalar_par s
  | _ => B e x
  end.
Definition names_of (e : tinfo) (x : val) : list (string * pieces) :=
  match x with
  | VNamed n y => [(n, B e y)]
  | VNameSrc l => flat_map (fun y => match y with VNamed n z => [(n, B e z)] | _ => [] end) l
  | _ => []
  end.
Definition argr_of (e : tinfo) (x : val) : argr := mk_argr (B e x) (par_of e x) (hid_of x) (names_of e x).
Definition member (e : tinfo) (x : val) := (is_single_or x, needs_paren x, B e x).
Definition bexprs (e : tinfo) (join : string) (l : list val) : pieces :=
  join_exprs (gt1 l) join true (map (member e) l).
Definition quoted (e : tinfo) (c : val) : pieces :=
  match c with VQStr s => ptext (quote_id s) | _ => B e c end.
Definition elems_of (e : tinfo) (x : val) : option (list pieces) :=
  match x with VList LIface l | VList LKnown l => Some (map (B e) l) | _ => None end.
Definition single_iface (vs : list val) : bool := match vs with [VList LIface _] => true | _ => false end.
Definition negated (e : tinfo) (x : val) : pieces :=
  match x with
  | VCmp o c y => cmp_build (neg_op o) (quoted e c) (elems_of e y) (eq_nil y) (B e y)
  | VIn c vs => in_build true (quoted e c) (map (B e) vs) (single_iface vs)
  | _ => pstr "NOT " ++ wrap_par (needs_paren x) (B e x)
  end.

Lemma B_VList : forall e k l, B e (VList k l) =
  match l with [] => pstr "(NULL)" | _ => PC "(" :: sepc [PC ","] (map (B e) l) ++ [PC ")"] end.
Proof. reflexivity. Qed.
Lemma B_VExpr : forall e wop sql vars, B e (VExpr wop sql vars) = expr_scan wop (s2l sql) (map (argr_of e) vars) false.
Proof. reflexivity. Qed.
Lemma B_VNamedExpr : forall e sql vars, B e (VNamedExpr sql vars) =
  named_scan (all_names (map (argr_of e) vars)) (s2l sql) (map (argr_of e) vars) false [] false.
Proof. reflexivity. Qed.
Lemma B_VCmp : forall e o c x, B e (VCmp o c x) = cmp_build o (quoted e c) (elems_of e x) (eq_nil x) (B e x).
Proof. reflexivity. Qed.
Lemma B_VIn : forall e c vs, B e (VIn c vs) = in_build false (quoted e c) (map (B e) vs) (single_iface vs).
Proof. reflexivity. Qed.
Lemma B_VAnd : forall e l, B e (VAnd l) = wrap_par (gt1 l) (bexprs e " AND " l).
Proof. reflexivity. Qed.
Lemma B_VOr : forall e l, B e (VOr l) = wrap_par (gt1 l) (bexprs e " OR " l).
Proof. reflexivity. Qed.
Lemma B_VWhere : forall e l, B e (VWhere l) = bexprs e " AND " l.
Proof. reflexivity. Qed.
Lemma B_VNot : forall e l, B e (VNot l) =
  if existsb has_negation l && negb (existsb is_single_or (tl l))
  then wrap_par (gt1 l) (sepc (pstr " AND ") (map (negated e) l))
  else pstr "NOT " ++ match l with
                      | [x] => wrap_par (needs_paren x) (B e x)
                      | [] => []
                      | _ => PC "(" :: bexprs e " AND " l ++ [PC ")"]
                      end.
Proof. reflexivity. Qed.
Lemma B_VSeq : forall e sp l, B e (VSeq sp l) = sepc (pstr sp) (map (B e) l).
Proof. reflexivity. Qed.
Lemma B_VRawSub : forall e sql vars, B e (VRawSub sql vars) =
  rebuild_sub numbered (raw_scan (s2l sql) (map (argr_of e) vars)).
Proof. reflexivity. Qed.

(* top-level copies of the local functions of [bound_values] and [wfb] *)
Definition bvpar (x : val) : list scalar :=
  match x with
  | VList _ [] => [SNull]
  | VList _ l => flat_map bound_values l
  | VS (SBytes b) => match s2l b with [] => [SNull] | _ => [SBytes b] end
  | _ => bound_values x
  end.
Definition bvdefs (x : val) : list (string * list scalar) :=
  match x with
  | VNamed n y => [(n, bound_values y)]
  | VNameSrc l => flat_map (fun y => match y with VNamed n z => [(n, bound_values z)] | _ => [] end) l
  | _ => []
  end.
Definition bvcol (c : val) : list scalar := match c with VQStr _ => [] | _ => bound_values c end.
Definition bv_names (sql : string) (vars : list val) : list scalar :=
  flat_map (fun n => match lookup_last_v (flat_map bvdefs vars) (l2s n) None with Some l => l | None => [] end)
           (names_in (s2l sql) None).
Definition bv_pos (wop : bool) (sql : string) (vars : list val) : list scalar :=
  List.concat (zipw (fun (f : bool) (x : list scalar * list scalar) => if f || wop then fst x else snd x)
                    (paren_flags (s2l sql) false) (map (fun x => (bvpar x, bound_values x)) vars)).
Definition bv_pos0 (sql : string) (vars : list val) : list scalar :=
  List.concat (zipw (fun (f : bool) (x : list scalar * list scalar) => if f then fst x else snd x)
                    (paren_flags (s2l sql) false) (map (fun x => (bvpar x, bound_values x)) vars)).

Lemma bv_VExpr : forall wop sql vars, bound_values (VExpr wop sql vars) = bv_pos wop sql vars.
Proof. reflexivity. Qed.
Lemma bv_VNamedExpr : forall sql vars, bound_values (VNamedExpr sql vars) =
  if contains_c "@" (s2l sql) then bv_names sql vars else bv_pos0 sql vars.
Proof. reflexivity. Qed.
Lemma bv_VRawSub : forall sql vars, bound_values (VRawSub sql vars) =
  if contains_c "@" (s2l sql) then bv_names sql vars else bv_pos0 sql vars.
Proof. reflexivity. Qed.
Lemma bv_VCmp : forall o c x, bound_values (VCmp o c x) =
  bvcol c ++ match o with
             | OEq | ONeq => match x with
                             | VList LIface l | VList LKnown l => flat_map bound_values l
                             | _ => if eq_nil x then [] else bound_values x
                             end
             | _ => bound_values x
             end.
Proof. reflexivity. Qed.
Lemma bv_VIn : forall c vs, bound_values (VIn c vs) = bvcol c ++ flat_map bound_values vs.
Proof. reflexivity. Qed.

Definition named_arg_ok (x : val) : bool :=
  match x with
  | VNamed n y => wfb y
  | VNameSrc l => forallb (fun y => match y with VNamed n z => wfb z | _ => false end) l
  | _ => false
  end.
Definition def_names (x : val) : list string :=
  match x with
  | VNamed n y => [n]
  | VNameSrc l => flat_map (fun y => match y with VNamed n z => [n] | _ => [] end) l
  | _ => []
  end.
Definition wfcol (c : val) : bool := match c with VQStr s => clean_str s | _ => wfb c end.
Definition template_ok (sql : string) (vars : list val) : bool :=
  let sl := s2l sql in
  tmpl_ok sl && negb (quoted_ph sl None) &&
  if contains_c "@" sl then
    negb (contains_c "?" sl) && forallb named_arg_ok vars
    && forallb (fun n => word_name n && existsb (String.eqb (l2s n)) (flat_map def_names vars)) (names_in sl None)
  else (count_c "?" sl =? length vars)%nat && forallb wfb vars.

Lemma wfb_VExpr : forall w sql vars, wfb (VExpr w sql vars) = negb (contains_c "@" (s2l sql)) && template_ok sql vars.
Proof. reflexivity. Qed.
Lemma wfb_VNamedExpr : forall sql vars, wfb (VNamedExpr sql vars) = template_ok sql vars.
Proof. reflexivity. Qed.
Lemma wfb_VRawSub : forall sql vars, wfb (VRawSub sql vars) =
  template_ok sql vars && forallb nonempty_bytes (bound_values (VRawSub sql vars)).
Proof. reflexivity. Qed.
Lemma wfb_VCmp : forall o c x, wfb (VCmp o c x) = wfcol c && wfb x.
Proof. reflexivity. Qed.
Lemma wfb_VIn : forall c vs, wfb (VIn c vs) = wfcol c && forallb wfb vs.
Proof. reflexivity. Qed.

(* the statement proved for every value *)
Definition Q (v : val) : Prop :=
  forall e, tinfo_ok e = true -> wfb v = true ->
  vars_of (B e v) = bound_values v /\ goodp (B e v) = true.

(* ---- list lemmas ---- *)
Lemma Q_list : forall e l, tinfo_ok e = true -> Forall (Her Q) l -> forallb wfb l = true ->
  map vars_of (map (B e) l) = map bound_values l /\ Forall (fun p => goodp p = true) (map (B e) l).
Proof.
  intros e l He H. induction H as [|x l Hx Hl IH]; intro Hw; [split; constructor|].
  cbn in Hw. apply andb_prop in Hw. destruct Hw as [Hw1 Hw2].
  destruct (her_q _ _ Hx e He Hw1) as [V G]. destruct (IH Hw2) as [V' G'].
  cbn [map]. split; [rewrite V, V'; reflexivity | constructor; assumption].
Qed.

Lemma concat_map_flat : forall {A B0} (f : A -> list B0) l, List.concat (map f l) = flat_map f l.
Proof. intros. symmetry. apply flat_map_concat_map. Qed.

Lemma Q_list_vars : forall e l, tinfo_ok e = true -> Forall (Her Q) l -> forallb wfb l = true ->
  List.concat (map vars_of (map (B e) l)) = flat_map bound_values l.
Proof.
  intros e l He H Hw. destruct (Q_list e l He H Hw) as [V _]. rewrite V. apply concat_map_flat.
Qed.

Lemma good_pstr : forall s, clean_str s = true -> goodp (pstr s) = true.
Proof. intros s H. apply goodp_ptext. exact H. Qed.

Lemma goodp_wrap : forall b p, goodp p = true -> goodp (wrap_par b p) = true.
Proof.
  intros [] p H; [|exact H]. cbn [wrap_par].
  change (PC "(" :: p ++ [PC ")"]) with (pstr "(" ++ p ++ pstr ")").
  repeat apply goodp_app; auto using good_pstr.
Qed.
Lemma vars_wrap : forall b p, vars_of (wrap_par b p) = vars_of p.
Proof.
  intros [] p; [|reflexivity]. cbn [wrap_par vars_of]. rewrite vars_of_app. cbn. apply List.app_nil_r.
Qed.
Lemma vars_pstr : forall s, vars_of (pstr s) = [].
Proof. intro s. apply vars_of_ptext. Qed.

(* buildExprs *)
Lemma join_exprs_vars : forall multi join first l,
  vars_of (join_exprs multi join first l) = List.concat (map (fun m => vars_of (snd m)) l).
Proof.
  intros multi join first l. revert first. induction l as [|[[sor np] p] r IH]; intro first; [reflexivity|].
  cbn [join_exprs map List.concat snd]. rewrite !vars_of_app, vars_wrap, IH.
  destruct first; [reflexivity|]. rewrite vars_pstr. reflexivity.
Qed.
Lemma join_exprs_good : forall multi join first l,
  clean_str join = true -> Forall (fun m => goodp (snd m) = true) l ->
  goodp (join_exprs multi join first l) = true.
Proof.
  intros multi join first l Hj H. revert first. induction H as [|[[sor np] p] r Hp Hr IH]; intro first; [reflexivity|].
  cbn [join_exprs]. repeat apply goodp_app.
  - destruct first; [reflexivity|]. destruct sor; apply good_pstr; [reflexivity | exact Hj].
  - apply goodp_wrap. exact Hp.
  - apply IH.
Qed.

Lemma bexprs_vars : forall e join l, tinfo_ok e = true -> Forall (Her Q) l -> forallb wfb l = true ->
  vars_of (bexprs e join l) = flat_map bound_values l.
Proof.
  intros e join l He H Hw. unfold bexprs. rewrite join_exprs_vars, map_map. cbn [member snd].
  rewrite <- (Q_list_vars e l He H Hw), map_map. reflexivity.
Qed.
Lemma bexprs_good : forall e join l, tinfo_ok e = true -> clean_str join = true ->
  Forall (Her Q) l -> forallb wfb l = true -> goodp (bexprs e join l) = true.
Proof.
  intros e join l He Hj H Hw. unfold bexprs. apply join_exprs_good; [exact Hj|].
  destruct (Q_list e l He H Hw) as [_ G]. rewrite Forall_map in G |- *. exact G.
Qed.

End Main.
