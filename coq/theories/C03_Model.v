(* C03_Model.v — what Create stores is what queries load back.
   Modelled code (gorm, /repo):
     schema/field.go      ValueOf / Set per Go kind (the codecs [enc]/[dec]), DefaultValueInterface,
                          AutoCreateTime/AutoUpdateTime variants, embedded fields (ParseField)
     schema/serializer.go JSONSerializer / GobSerializer / UnixSecondSerializer Value+Scan
     schema/schema.go     ParseWithSpecialTableName: Fields order, DBNames, FieldsByDBName priority,
                          FieldsWithDefaultDBValue
     callbacks/create.go  ConvertToCreateValues (struct and slice branches), Create (RETURNING scan,
                          LastInsertId back-fill in both directions, map / []map destinations)
     callbacks/helper.go  ConvertMapToValuesForCreate / ConvertSliceOfMapToValuesForCreate
     scan.go              Scan(ScanUpdate) into records, prepareValues / scanIntoMap
   Environment (NOT gorm, tied by the correspondence only): SQLite rowid assignment for
   INTEGER PRIMARY KEY AUTOINCREMENT ([assign]), storage classes ([store], a parameter).
   Floats and times are opaque integers (bit pattern / unix nanoseconds): carried, never computed
   on, except the unixtime serializer's seconds<->instant conversion.  No proofs here. *)
From Verif Require Import Base.
Open Scope Z_scope.

(* ------------------------------------------------------------------ *)
(* kinds, Go values, database values *)
Inductive ser := SJson | SGob | SUnix.
Inductive kind :=
  | KInt (w : Z) | KUint (w : Z) | KBool | KStr | KBytes | KFloat (w : Z) | KTime
  | KPtr (k : kind) | KNull (k : kind) | KCustom (k : kind) | KSer (s : ser) (k : kind).

Inductive goval :=
  | GInt (z : Z) | GBool (b : bool) | GStr (s : string) | GBytes (b : list Z) | GOpq (n : Z)
  | GNil | GSome (v : goval)
  | GAbsent.   (* leaf of a pointer-embedded struct whose pointer is nil *)

Inductive dbval := DNull | DInt (z : Z) | DText (s : string) | DBlob (b : list Z) | DOpq (n : Z).

Definition zero_ns : Z := -62135596800000000000.   (* time.Time{} as unix nanoseconds *)
Definition giga : Z := 1000000000.

Definition int_ok (w z : Z) : bool := (- 2 ^ (w - 1) <=? z) && (z <? 2 ^ (w - 1)).
(* database/sql refuses uint64 values with the high bit set; SQLite integers are signed 64 bit *)
Definition uint_ok (w z : Z) : bool := (0 <=? z) && (z <? 2 ^ w) && (z <? 2 ^ 63).

(* [enc k v]: Field.ValueOf + driver conversion; None = Create returns an error (or panics) *)
Fixpoint enc (k : kind) (v : goval) : option dbval :=
  match v with
  | GAbsent => Some DNull          (* ValueOf through a nil embedded pointer: (nil, true) *)
  | _ =>
    match k with
    | KInt w => match v with GInt z => if int_ok w z then Some (DInt z) else None | _ => None end
    | KUint w => match v with GInt z => if uint_ok w z then Some (DInt z) else None | _ => None end
    | KBool => match v with GBool b => Some (DInt (if b then 1 else 0)) | _ => None end
    | KStr => match v with GStr s => Some (DText s) | _ => None end
    | KBytes => match v with GNil => Some DNull | GBytes b => Some (DBlob b) | _ => None end
    | KFloat _ => match v with GOpq n => Some (DOpq n) | _ => None end
    | KTime => match v with GOpq n => Some (DOpq n) | _ => None end
    | KPtr k' | KNull k' =>
        match v with GNil => Some DNull | GSome v' => enc k' v' | _ => None end
    | KCustom k' => enc k' v          (* canonical value of a Valuer = what Value() returns *)
    | KSer SUnix k' =>
        (* UnixSecondSerializer.Value: time.Unix(seconds, 0) from a signed or unsigned integer
           (int8/uint8 are rejected by the serializer and not modelled); a nil pointer is NULL *)
        match k', v with
        | KInt w, GInt z => if int_ok w z then Some (DOpq (z * giga)) else None
        | KUint w, GInt z => if uint_ok w z then Some (DOpq (z * giga)) else None
        | KPtr (KInt w), GNil | KPtr (KUint w), GNil => Some DNull
        | KPtr (KInt w), GSome (GInt z) => if int_ok w z then Some (DOpq (z * giga)) else None
        | KPtr (KUint w), GSome (GInt z) => if uint_ok w z then Some (DOpq (z * giga)) else None
        | _, _ => None
        end
    | KSer _ k' => enc k' v           (* json: text, "null" is NULL; gob: opaque (decoded projection) *)
    end
  end.

Fixpoint zero (k : kind) : goval :=
  match k with
  | KInt _ | KUint _ => GInt 0
  | KBool => GBool false
  | KStr => GStr ""
  | KBytes => GNil
  | KFloat _ => GOpq 0
  | KTime => GOpq zero_ns
  | KPtr _ | KNull _ => GNil
  | KCustom k' => zero k'
  | KSer _ k' => zero k'
  end.

(* [dec k d]: rows.Scan into the pooled **T / Scanner + Field.Set on a fresh record *)
Fixpoint dec (k : kind) (d : dbval) : goval :=
  match k with
  | KInt _ | KUint _ => match d with DInt z => GInt z | _ => GInt 0 end
  | KBool => match d with DInt z => GBool (z =? 1) | _ => GBool false end
  | KStr => match d with DText s => GStr s | _ => GStr "" end
  | KBytes => match d with DBlob b => GBytes b | _ => GNil end
  | KFloat _ => match d with DOpq n => GOpq n | _ => GOpq 0 end
  | KTime => match d with DOpq n => GOpq n | _ => GOpq zero_ns end
  | KPtr k' | KNull k' => match d with DNull => GNil | _ => GSome (dec k' d) end
  | KCustom k' => dec k' d
  | KSer SUnix k' =>
      (* UnixSecondSerializer.Scan: sql.NullTime then field.Set(t.Unix()) *)
      match d with
      | DOpq n => match k' with KPtr _ => GSome (GInt (n / giga)) | _ => GInt (n / giga) end
      | _ => zero k'
      end
  | KSer _ k' => dec k' d
  end.

(* reflect.Value.IsZero of the field value (second result of ValueOf) *)
Definition is_zero (k : kind) (v : goval) : bool :=
  match v with
  | GAbsent | GNil => true
  | GInt z => z =? 0
  | GBool b => negb b
  | GStr s => String.eqb s ""
  | GOpq n => match k with KTime => n =? zero_ns | _ => n =? 0 end
  | GBytes _ | GSome _ => false
  end.

(* a nil embedded pointer reads back as an allocated struct of zero leaves: same field values *)
Definition norm (k : kind) (v : goval) : goval := match v with GAbsent => zero k | _ => v end.

(* ---- well-typed, representable values (DESIGN 8.0 C03) ---- *)
Definition not_null (o : option dbval) : bool := match o with Some DNull => false | _ => true end.

Fixpoint wtb (k : kind) (v : goval) : bool :=
  match k with
  | KInt _ | KUint _ => match v with GInt _ => true | _ => false end
  | KBool => match v with GBool _ => true | _ => false end
  | KStr => match v with GStr _ => true | _ => false end
  | KBytes => match v with GNil | GBytes _ => true | _ => false end
  | KFloat _ | KTime => match v with GOpq _ => true | _ => false end
  | KPtr k' | KNull k' =>
      match v with
      | GNil => true
      | GSome v' => wtb k' v' && not_null (enc k' v')   (* a pointer to a nil []byte is stored as NULL *)
      | _ => false
      end
  | KCustom k' => wtb k' v
  | KSer SUnix k' =>
      match k', v with
      | KInt _, GInt _ | KUint _, GInt _ => true      (* the serializer lists int and uint types *)
      | KPtr (KInt _), GNil | KPtr (KUint _), GNil => true
      | KPtr (KInt _), GSome (GInt _) | KPtr (KUint _), GSome (GInt _) => true
      | _, _ => false
      end
  | KSer _ k' => wtb k' v
  end.

(* representable in the column type: in range for the width, uint64 below 2^63 *)
Fixpoint in_range (k : kind) (v : goval) : bool :=
  match v with
  | GAbsent => true
  | _ =>
    match k with
    | KInt w => match v with GInt z => int_ok w z | _ => false end
    | KUint w => match v with GInt z => uint_ok w z | _ => false end
    | KPtr k' | KNull k' => match v with GSome v' => in_range k' v' | _ => true end
    | KCustom k' => in_range k' v
    | KSer _ k' => in_range k' v
    | _ => true
    end
  end.

(* ---- SQLite column affinity chosen by the dialector (DataTypeOf) ---- *)
Inductive aff := AInt | AText | ABlob | AReal | ANum.
Fixpoint col_aff (k : kind) : aff :=
  match k with
  | KInt _ | KUint _ => AInt
  | KBool => ANum
  | KStr => AText
  | KBytes => ABlob
  | KFloat _ => AReal
  | KTime => ANum
  | KPtr k' | KNull k' | KCustom k' => col_aff k'
  | KSer SUnix _ => ANum
  | KSer _ _ => AText
  end.
(* a value whose storage class already agrees with the column affinity is stored unchanged *)
Definition compatible (a : aff) (d : dbval) : bool :=
  match d with
  | DNull | DBlob _ => true
  | DInt _ => match a with AInt | ANum | ABlob => true | _ => false end
  | DText _ => match a with AText | ABlob => true | _ => false end
  | DOpq _ => match a with AReal | ANum | ABlob => true | _ => false end
  end.

(* ------------------------------------------------------------------ *)
(* schema flattening: struct tree -> schema.Fields -> DBNames / FieldsByDBName *)
Inductive fnode :=
  | FLeaf (name col : string)                      (* col: `column:` tag or NamingStrategy.ColumnName *)
  | FEmbed (name prefix : string) (kids : list fnode).

Fixpoint flatten (n : fnode) : list (list string * string) :=
  match n with
  | FLeaf nm c => [([nm], c)]
  | FEmbed nm p kids =>
      map (fun pc => (nm :: fst pc, p ++ snd pc)%string)
          ((fix go (l : list fnode) := match l with [] => [] | x :: r => flatten x ++ go r end) kids)
  end.
Definition fields_of (tree : list fnode) : list (list string * string) := flat_map flatten tree.

(* ParseWithSpecialTableName: a column name seen for the first time is appended to DBNames; a
   later field with the same column name replaces the earlier one iff its bind path is shorter *)
Fixpoint insert_field (acc : list (string * list string)) (col : string) (path : list string)
  : list (string * list string) :=
  match acc with
  | [] => [(col, path)]
  | (c, p) :: r =>
      if String.eqb c col
      then (if Nat.ltb (length path) (length p) then (c, path) else (c, p)) :: r
      else (c, p) :: insert_field r col path
  end.
Definition dbnames_from (fs : list (list string * string)) (acc : list (string * list string)) :=
  fold_left (fun a f => insert_field a (snd f) (fst f)) fs acc.
Definition dbnames (tree : list fnode) : list (string * list string) := dbnames_from (fields_of tree) [].

(* FieldsByDBName[col] of the parsed schema *)
Fixpoint col_lookup (acc : list (string * list string)) (col : string) : option (list string) :=
  match acc with
  | [] => None
  | (c, p) :: r => if String.eqb c col then Some p else col_lookup r col
  end.

(* Which field OWNS a column that several fields map to, as the property reads a model type
   ("nonexistence or shortest path or first appear prioritized"; for fields of the model itself and
   of anonymously embedded structs this is Go's own rule for a promoted field): the field of minimal
   depth, the first declared among equals.  Written as a right fold over the declaration order, not
   as the parser's left fold with replacement ([insert_field]). *)
Fixpoint owner_of (fs : list (list string * string)) (col : string) : option (list string) :=
  match fs with
  | [] => None
  | (p, c) :: r =>
      match owner_of r col with
      | None => if String.eqb c col then Some p else None
      | Some q => if String.eqb c col && Nat.leb (length p) (length q) then Some p else Some q
      end
  end.

(* ------------------------------------------------------------------ *)
(* columns of a parsed schema, in DBNames order *)
Record fdesc := mk_fd {
  fd_path : list string; fd_col : string; fd_kind : kind;
  fd_pk : bool; fd_auto : bool;           (* PrimaryKey, AutoIncrement *)
  fd_hasdef : bool;                       (* HasDefaultValue (after Parse) *)
  fd_defi : option goval;                 (* DefaultValueInterface, as the field value it sets *)
  fd_dbdef : option dbval;                (* what the database generates for an omitted column *)
  fd_ctime : Z; fd_utime : Z;             (* AutoCreateTime / AutoUpdateTime: 0 none 1 time 2 s 3 ms 4 ns *)
  fd_embptr : bool
}.

Definition is_some {A} (o : option A) : bool := match o with Some _ => true | None => false end.
(* schema.FieldsWithDefaultDBValue *)
Definition is_dbdef (f : fdesc) : bool := fd_hasdef f && negb (is_some (fd_defi f)).
Definition tracked (f : fdesc) : bool := (0 <? fd_ctime f) || (0 <? fd_utime f).

(* Field.Set(curTime) on a time / integer field *)
Definition now_val (f : fdesc) (now : Z) : goval :=
  match fd_kind f with
  | KInt _ | KUint _ =>
      if (fd_ctime f =? 4) || (fd_utime f =? 4) then GInt now
      else if (fd_ctime f =? 3) || (fd_utime f =? 3) then GInt (now / 1000000)
      else GInt (now / giga)
  | KPtr _ => GSome (GOpq now)      (* a nil *time.Time is pointed at a fresh time value *)
  | _ => GOpq now
  end.

(* ConvertToCreateValues, per cell of a column without database default: zero values take the
   parsed default (also written back into the record) or the current time *)
Definition filled (f : fdesc) (now : Z) (v : goval) : goval :=
  if is_zero (fd_kind f) v then
    match fd_defi f with
    | Some dv => dv
    | None => if tracked f then now_val f now else v
    end
  else v.

(* the cell stored for record value [v] of column [f]; [incl]: the statement lists this
   database-default column because some record of the slice has a value for it *)
Definition cell (f : fdesc) (now : Z) (incl : bool) (rowid : Z) (v : goval) : option dbval :=
  if is_dbdef f then
    if negb (is_zero (fd_kind f) v) then enc (fd_kind f) v
    else if fd_auto f then Some (DInt rowid)   (* omitted / NULL auto-increment key *)
    else if incl then None                     (* dialector renders DEFAULT: rejected by SQLite *)
    else Some (match fd_dbdef f with Some d => d | None => DNull end)
  else enc (fd_kind f) (filled f now v).

(* SQLite, INTEGER PRIMARY KEY AUTOINCREMENT: a NULL key takes (largest key ever)+1 *)
Fixpoint assign (cur : Z) (keys : list Z) : list Z :=
  match keys with
  | [] => []
  | k :: r => if k =? 0 then (cur + 1) :: assign (cur + 1) r else k :: assign (Z.max cur k) r
  end.
Fixpoint assign_end (cur : Z) (keys : list Z) : Z :=
  match keys with
  | [] => cur
  | k :: r => if k =? 0 then assign_end (cur + 1) r else assign_end (Z.max cur k) r
  end.

Definition key_of (v : goval) : Z := match v with GInt z => z | _ => 0 end.
(* index of the auto-increment key column, if any *)
Fixpoint auto_idx (fs : list fdesc) (i : nat) : option nat :=
  match fs with
  | [] => None
  | f :: r => if fd_pk f && fd_auto f then Some i else auto_idx r (S i)
  end.
Definition rec_key (fs : list fdesc) (r : list goval) : Z :=
  match auto_idx fs 0 with Some i => key_of (nth i r GAbsent) | None => 0 end.

Fixpoint opt_all {A} (l : list (option A)) : option (list A) :=
  match l with
  | [] => Some []
  | Some x :: r => match opt_all r with Some r' => Some (x :: r') | None => None end
  | None :: _ => None
  end.

Fixpoint map2 {A B C} (f : A -> B -> C) (a : list A) (b : list B) : list C :=
  match a, b with x :: a', y :: b' => f x y :: map2 f a' b' | _, _ => [] end.

Definition row_of (fs : list fdesc) (now : Z) (incl : list bool) (rowid : Z) (r : list goval)
  : option (list dbval) :=
  opt_all (map2 (fun fi v => cell (fst fi) now (snd fi) rowid v) (combine fs incl) r).

(* which database-default columns the statement of a slice lists *)
Definition incl_of (fs : list fdesc) (recs : list (list goval)) : list bool :=
  map (fun fi => existsb (fun r => negb (is_zero (fd_kind (snd fi)) (nth (fst fi) r GAbsent))) recs)
      (combine (seq 0 (length fs)) fs).

(* ---- primary-key back-fill of callbacks.Create ---- *)
(* LastInsertId path over a slice: [zs] = "key is zero" per record; result = key written, if any *)
Fixpoint bf_fwd (id : Z) (zs : list bool) : list (option Z) :=
  match zs with
  | [] => []
  | true :: r => Some id :: bf_fwd (id + 1) r
  | false :: r => None :: bf_fwd id r
  end.
Fixpoint bf_down (id : Z) (zs : list bool) : list (option Z) :=
  match zs with
  | [] => []
  | true :: r => Some id :: bf_down (id - 1) r
  | false :: r => None :: bf_down id r
  end.
Definition backfill_lastid (reversed : bool) (insert_id : Z) (zs : list bool) : list (option Z) :=
  if reversed then rev (bf_down insert_id (rev zs)) else bf_fwd insert_id zs.
(* []map destinations: every map gets a key, counted up from insertID (-(n-1) when reversed) *)
Definition backfill_maps (reversed : bool) (insert_id : Z) (n : nat) : list Z :=
  let start := if reversed then insert_id - (Z.of_nat n - 1) else insert_id in
  map (fun i => start + Z.of_nat i) (seq 0 n).

(* RETURNING path: gorm.Scan(ScanUpdate) writes row i of the result into record i *)
Definition set_from_db (k : kind) (old : goval) (d : dbval) : goval :=
  match d with DNull => old | _ => dec k d end.   (* Set of a pointer-to-pointer holding NULL leaves the field alone *)

Definition last_z (l : list Z) (d : Z) : Z := lastz l d.

(* memory after Create for one record *)
Definition after_rec (fs : list fdesc) (now : Z) (ret : bool) (prio : string)
           (row : list dbval) (lastid : option Z) (r : list goval) : list goval :=
  map2 (fun fd vd =>
          let v := fst vd in
          if is_dbdef fd then
            if ret then set_from_db (fd_kind fd) v (snd vd)
            else if String.eqb (fd_col fd) prio
                 then match lastid with Some id => GInt id | None => v end
                 else v
          else filled fd now v)
       fs (combine r row).

Inductive op := OpStruct | OpSlice | OpPtrSlice | OpBatches (bs : Z) | OpMap | OpMaps | OpMapsPtr.

(* one INSERT statement for the records [recs] (a struct = one record, listing only its own
   non-zero database-default columns); result: memory after, rows, new AUTOINCREMENT counter *)
Definition create_stmt (fs : list fdesc) (now : Z) (returning reversed : bool) (prio : string) (prio_hasdef : bool)
           (is_struct : bool) (base : Z) (recs : list (list goval))
  : option (list (list goval) * list (list dbval) * Z) :=
  let keys := map (rec_key fs) recs in
  let ids := assign base keys in
  let incl := if is_struct then map (fun _ => false) fs else incl_of fs recs in
  match opt_all (map2 (fun id r => row_of fs now incl id r) ids recs) with
  | None => None
  | Some rows =>
      let ret := returning && existsb is_dbdef fs in
      let zs := map (fun k => k =? 0) keys in
      (* LastInsertId: the last key of the statement, or the first on not-reversed dialects *)
      let insert_id := if reversed then last_z ids 0 else hd 0 ids in
      let lastids :=
        if ret then map (fun _ => None) recs
        else if negb prio_hasdef || (String.eqb prio "") then map (fun _ => None) recs
        else if is_struct then map (fun z : bool => if z then Some insert_id else None) zs
        else backfill_lastid reversed insert_id zs in
      Some (map2 (fun r rl => after_rec fs now ret prio (fst rl) (snd rl) r) recs (combine rows lastids),
            rows, assign_end base keys)
  end.

Fixpoint chunks {A} (fuel : nat) (n : nat) (l : list A) : list (list A) :=
  match fuel with
  | O => []
  | S fuel' => match l with [] => [] | _ => firstn n l :: chunks fuel' n (skipn n l) end
  end.

Definition clock_step : Z := 1001001001.

Fixpoint create_seq (fs : list fdesc) (now : Z) (returning reversed : bool) (prio : string) (prio_hasdef : bool)
         (is_struct : bool) (base : Z) (stmts : list (list (list goval)))
  : option (list (list goval) * list (list dbval)) :=
  match stmts with
  | [] => Some ([], [])
  | s :: rest =>
      match create_stmt fs now returning reversed prio prio_hasdef is_struct base s with
      | None => None
      | Some (a, rows, base') =>
          (* every Create statement reads the clock once (NowFunc); the harness clock advances by
             [clock_step] per reading *)
          match create_seq fs (now + clock_step) returning reversed prio prio_hasdef is_struct base' rest with
          | None => None
          | Some (a', rows') => Some (a ++ a', rows ++ rows')
          end
      end
  end.

(* ---- Create from maps: ConvertMapToValuesForCreate / ConvertSliceOfMapToValuesForCreate ---- *)
(* a map holds plain values; a missing key ([GAbsent]) omits the column (NULL, or the key) *)
Definition map_cell (f : fdesc) (rowid : Z) (v : goval) : option dbval :=
  match v with
  | GAbsent => if fd_pk f && fd_auto f then Some (DInt rowid)
               else Some (match fd_dbdef f with Some d => d | None => DNull end)
  | _ => enc (fd_kind f) v
  end.
Definition map_row (fs : list fdesc) (rowid : Z) (r : list goval) : option (list dbval) :=
  opt_all (map2 (fun f v => map_cell f rowid v) fs r).

(* the key entry of the map after Create; [None] = the statement failed *)
Definition set_key (fs : list fdesc) (r : list goval) (k : option Z) : list goval :=
  map2 (fun f v => if fd_pk f && fd_auto f then match k with Some id => GInt id | None => v end else v) fs r.

Definition create_maps (fs : list fdesc) (returning reversed : bool) (o : op) (base : Z) (recs : list (list goval))
  : option (list (list goval) * list (list dbval) * Z (* length of the []map afterwards *)) :=
  let has_auto := is_some (auto_idx fs 0) in
  let n := Z.of_nat (length recs) in
  match o with
  | OpMap =>
      (* one statement per map; RETURNING scans the key into the map, LastInsertId writes it *)
      (fix go (base : Z) (l : list (list goval)) :=
         match l with
         | [] => Some ([], [], n)
         | r :: rest =>
             let id := last_z (assign base [rec_key fs r]) 0 in
             match map_row fs id r with
             | None => None
             | Some row =>
                 match go (assign_end base [rec_key fs r]) rest with
                 | None => None
                 | Some (a, rows, m) => Some (set_key fs r (if has_auto then Some id else None) :: a, row :: rows, m)
                 end
             end
         end) base recs
  | _ =>
      let keys := map (rec_key fs) recs in
      let ids := assign base keys in
      match opt_all (map2 (fun id r => map_row fs id r) ids recs) with
      | None => None
      | Some rows =>
          if returning && existsb is_dbdef fs then
            match o with
            | OpMapsPtr => Some (recs, rows, 2 * n)   (* Scan appends one new map per returned row *)
            | _ => None                               (* scanning a row into a []map value fails *)
            end
          else if has_auto then
            Some (map2 (fun r k => set_key fs r (Some k)) recs
                       (backfill_maps reversed (if reversed then last_z ids 0 else hd 0 ids) (length recs)), rows, n)
          else Some (recs, rows, n)
      end
  end.

(* the whole Create call *)
Definition create (fs : list fdesc) (now : Z) (returning reversed : bool) (prio : string) (prio_hasdef : bool)
           (o : op) (base : Z) (recs : list (list goval))
  : option (list (list goval) * list (list dbval) * Z) :=
  let wrap x := match x with Some (a, rows) => Some (a, rows, 0) | None => None end in
  (* an empty slice (of records or of maps) is refused: ErrEmptySlice *)
  (* (CreateInBatches over an empty slice issues no statement at all) *)
  let is_call_per_record := match o with OpStruct | OpMap | OpBatches _ => true | _ => false end in
  if negb is_call_per_record && match recs with [] => true | _ => false end then None else
  match o with
  | OpStruct => wrap (create_seq fs now returning reversed prio prio_hasdef true base (map (fun r => [r]) recs))
  | OpSlice | OpPtrSlice => wrap (create_seq fs now returning reversed prio prio_hasdef false base [recs])
  | OpBatches bs =>
      wrap (create_seq fs now returning reversed prio prio_hasdef false base
                       (chunks (S (length recs)) (Z.to_nat bs) recs))
  | OpMap | OpMaps | OpMapsPtr => create_maps fs returning reversed o base recs
  end.

(* reading a stored row into a fresh record: Field.Set per column *)
Definition read_rec (fs : list fdesc) (row : list dbval) : list goval :=
  map2 (fun f d => dec (fd_kind f) d) fs row.
