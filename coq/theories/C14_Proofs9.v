(* C14_Proofs9.v — transparency, partial: without Reset/Close in the programs and without driver
   faults every operation returns ROk (same rows as without the cache). *)
From Verif Require Import Base C14_Model C14_Count C14_Proofs C14_Proofs2 C14_Proofs3 C14_Proofs4 C14_Proofs5 C14_Proofs6 C14_Proofs7.

Definition is_exec (o : op) : Prop := match o with OExec _ _ _ => True | _ => False end.
Definition pc_ok (p : pc) : Prop :=
  match p with
  | P11 _ | P11b _ | P11c _ | X2 _ | X2b _ | R0 | R1 | K0 | K1 | C0 _ | C1 _ | D0 _ => False
  | X1r _ o => o = CExecOk
  | Ret r => r = ROk
  | _ => True
  end.
Definition ok_choice (c : choice) : Prop := c = CNone \/ c = CPrepOk \/ c = CExecOk.

Record nf_inv (s : state) : Prop := {
  N_map : s_map s <> None;
  N_closed : s_closed s = [];
  N_err : forall e, e < length (s_ents s) -> e_err (ent s e) = false;
  N_thr : thr_inv s (fun th => pc_ok (t_pc th) /\ Forall (eq ROk) (t_res th) /\ Forall is_exec (t_ops th))
}.

Lemma Forall_tl {A} (P : A -> Prop) l : Forall P l -> Forall P (tl l).
Proof. destruct 1; cbn; auto. Qed.

Lemma nf_step s t th c s' l :
  nth_error (s_thr s) t = Some th -> step_th s t th c = Some (s', l) -> ok_choice c ->
  invD s -> invT s -> nf_inv s -> nf_inv s'.
Proof.
  intros Ht H Hc [DT SD _] [_ TT] [NM NC NE NT].
  pose proof (NT _ _ Ht) as Nth. cbv beta in Nth. destruct Nth as [Npc [Nres Nops]].
  pose proof (TT _ _ Ht) as Tth. cbv beta in Tth. destruct Tth as [_ [_ T3]].
  assert (Hch : c <> CPrepFail /\ c <> CExecErr /\ c <> CExecBad)
    by (destruct Hc as [->|[->| ->]]; repeat split; discriminate).
  destruct Hch as [Hc1 [Hc2 Hc3]].
  step_cases H.
  all: try rewrite Heqp in Npc; cbn [pc_ok] in Npc; try contradiction; try congruence.
  all: try (rewrite Heql0 in Nops; inversion Nops; subst; contradiction).
  all: try (exfalso; destruct (T3 _ eq_refl) as [Hl _]; rewrite (NE _ Hl) in Heqb1; discriminate).
  all: try (exfalso; eapply SD; eauto; fail).
  all: try (rewrite NC in Heqb0; cbn in Heqb0; rewrite andb_false_r in Heqb0; discriminate).
  all: split; autorewrite with st; try rewrite upd_length; try assumption.
  all: try (unfold thr_inv; autorewrite with st; norm_thr; thr_all_tac Ht;
            [ cbn [t_pc t_res t_ops set_pc finish pc_ok]; repeat split; auto;
              try (subst; apply Forall_app; split; [assumption|constructor; auto]);
              try (apply Forall_tl; assumption)
            | intros t' th' _ Hn'; exact (NT _ _ Hn')
            | intros t' th' Hi; destruct Hi ]).
  all: try (destruct (s_map s); [cbn; discriminate | contradiction]).
  all: try discriminate.
  all: try (rewrite Heql0; exact Nops).
  all: try (inversion Nops; subst; contradiction).
  - intros e1 He1. autorewrite with st. rewrite ent_w_ents_app. rewrite app_length in He1. cbn in He1.
    destruct (e1 =? length (s_ents s)) eqn:E; [reflexivity|]. apply Nat.eqb_neq in E. apply NE. lia.
  - intros e1 He1. autorewrite with st. rewrite ent_w_ents_app. rewrite app_length in He1. cbn in He1.
    destruct (e1 =? length (s_ents s)) eqn:E; [reflexivity|]. apply Nat.eqb_neq in E. apply NE. lia.
  - intros e1 He1. autorewrite with st. rewrite ent_set_ent. autorewrite with st.
    destruct ((e1 =? e) && (e <? length (s_ents s))) eqn:E; [|apply NE; exact He1].
    apply andb_prop in E. destruct E as [E _]. apply Nat.eqb_eq in E. subst e1. cbn. apply NE. exact He1.
  - intros e1 He1. autorewrite with st. rewrite ent_set_ent. autorewrite with st.
    destruct ((e1 =? e) && (e <? length (s_ents s))) eqn:E; [|apply NE; exact He1].
    apply andb_prop in E. destruct E as [E _]. apply Nat.eqb_eq in E. subst e1. cbn. apply NE. exact He1.
Qed.

Lemma nf_init g progs : (forall p, In p progs -> Forall is_exec p) -> nf_inv (init_g g progs).
Proof.
  intro Hp. split.
  - cbn. discriminate.
  - reflexivity.
  - cbn. intros e He. lia.
  - intros t th H. unfold init_g in H. cbn [s_thr] in H. rewrite nth_error_map in H. destruct (nth_error progs t) as [p|] eqn:E; inversion H; subst.
    cbn. repeat split; auto. apply Hp. eapply nth_error_In; eauto.
Qed.

(* Transparency, PARTIAL: programs without Reset/Close, schedules in which the driver never
   fails: every operation that returned, returned ROk, and every operation runs to completion
   (absence of deadlock is C14_Proofs3.no_deadlock). *)
Lemma transparent_partial progs sched s :
  (forall p, In p progs -> Forall is_exec p) -> no_faults sched ->
  run (init progs) sched = Some s ->
  forall t th, nth_error (s_thr s) t = Some th -> Forall (eq ROk) (t_res th).
Proof.
  intros Hp Hf Hr.
  assert (G : forall sched s0 s1, reach progs s0 -> nf_inv s0 -> no_faults sched -> run s0 sched = Some s1 -> nf_inv s1).
  { clear. induction sched as [|[t c] r IH]; intros s0 s1 Hre N Hf Hr; cbn in Hr.
    - inversion Hr; subst; exact N.
    - destruct (step s0 t c) as [s2|] eqn:E; [|discriminate].
      assert (Hf' : no_faults r) by (intros t' c' Hi; apply (Hf t' c'); right; exact Hi).
      apply (IH s2 s1); auto.
      + eapply reach_step; eauto.
      + pose proof E as E'. apply step_inv in E'. destruct E' as [th [l [Ht Hs]]].
        destruct (invCD_reach _ _ Hre) as [_ ID]. destruct (invET_reach _ _ Hre) as [_ IT].
        eapply nf_step; eauto. apply (Hf t c). left. reflexivity. }
  assert (N : nf_inv s).
  { eapply G; eauto; [exists false, []; reflexivity | apply (nf_init false); exact Hp]. }
  intros t th Ht. destruct N as [_ _ _ NT]. apply (NT _ _ Ht).
Qed.


(* ---- non-vacuity witnesses ---- *)
(* W6: a failed Prepare AND an ErrBadConn eviction, each deleting its own entry: no theft;
   after the final Close one pool-level statement was prepared and nothing is left open *)
Definition w6_progs := [[OExec 0 false true]; [OExec 0 false true]; [OClose]].
Definition w6_sched := prep_ok 0 ++ [(0, CExecBad)] ++ tau 0 4 ++ tau 1 6 ++ [(1, CPrepFail)]
  ++ tau 1 4 ++ tau 3 1 ++ tau 2 4.
(* W7: two goroutines ask for the same text at the same time: one Prepare call, both ROk *)
Definition w7_progs := [[OExec 0 false true]; [OExec 0 false true]].
Definition w7_sched := tau 0 6 ++ tau 1 3 ++ [(0, CPrepOk)] ++ tau 0 4 ++ tau 1 2
  ++ [(1, CExecOk); (0, CExecOk)] ++ tau 0 2 ++ tau 1 2.

Lemma w6_instance :
  exists s, run (init w6_progs) w6_sched = Some s /\ all_done s = true /\ s_stolen s = false
            /\ s_map s = None /\ s_prep s = [(0, 0, false)] /\ s_fails s = [0] /\ s_evicts s = [0].
Proof.
  destruct (run_witness w6_progs w6_sched
    (fun s => all_done s && negb (s_stolen s) && map_is_nil s
              && nl_eqb (map (fun p => fst (fst p)) (s_prep s)) [0]
              && nl_eqb (map (fun p => snd (fst p)) (s_prep s)) [0]
              && nl_eqb (map (fun p => C14_Count.b2n (snd p)) (s_prep s)) [0]
              && nl_eqb (s_fails s) [0] && nl_eqb (s_evicts s) [0])) as [s [R H]];
    [vm_compute; reflexivity|].
  exists s. repeat (apply andb_prop in H; let H2 := fresh "G" in destruct H as [H H2]).
  split; [exact R|]. split; [exact H|]. split; [destruct (s_stolen s); [discriminate|reflexivity]|].
  split; [apply map_is_nil_eq; assumption|].
  apply nl_eqb_eq in G, G0, G1, G2, G3.
  split; [|split; assumption].
  clear R. destruct (s_prep s) as [|[[a b] c] [|x r]]; try discriminate. cbn in G1, G2, G3.
  inversion G3; inversion G2; subst. destruct c; [discriminate|reflexivity].
Qed.

Lemma w7_instance :
  (forall p, In p w7_progs -> Forall is_exec p) /\ no_faults w7_sched /\
  exists s, run (init w7_progs) w7_sched = Some s /\ all_done s = true /\ s_calls s = [(0, false)]
            /\ results s = [[ROk]; [ROk]].
Proof.
  split; [|split].
  - intros p Hp. cbn in Hp. destruct Hp as [<-|[<-|[]]]; repeat constructor.
  - intros t c H. cbv in H.
    repeat (destruct H as [H|H]; [inversion H; subst; auto|]). destruct H.
  - destruct (run_witness w7_progs w7_sched
      (fun s => all_done s && nl_eqb (map fst (s_calls s)) [0]
                && nl_eqb (map (fun p => C14_Count.b2n (snd p)) (s_calls s)) [0]
                && res_eqb (results s) [[ROk]; [ROk]])) as [s [R H]];
      [vm_compute; reflexivity|].
    exists s. repeat (apply andb_prop in H; let H2 := fresh "G" in destruct H as [H H2]).
    split; [exact R|]. split; [exact H|]. split; [|apply res_eqb_eq; assumption].
    apply nl_eqb_eq in G0, G1. clear R. destruct (s_calls s) as [|[a b] [|x r]]; try discriminate. cbn in G0, G1.
    inversion G1; inversion G0; subst. destruct b; [discriminate|reflexivity].
Qed.
