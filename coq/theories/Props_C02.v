(* Props_C02.v — property C02: theorem statements only. *)
From Verif Require Import Base Sem Where_Model Where_Proofs Where_Render Where_Sem C09_Proofs Where_Spec C02_Args C02_ArgsProofs C09_Keys C09_KeysProofs.

(* The grammar the WHERE text is read with (SQL precedence NOT > AND > OR): printing a
   well-formed condition tree with the minimal-parenthesis printer and parsing it back yields the
   same tree, for trees of any size and nesting depth, with the parser's concrete fuel; and the
   parser only accepts what prints back to its input. *)
Theorem c02_parse_print : forall e, wfE e = true -> parse (prE e) = Some e.
Proof. exact parse_complete. Qed.
Print Assumptions c02_parse_print.

Theorem c02_print_parse : forall ts e, parse ts = Some e -> ts = prE e /\ wfE e = true.
Proof. exact parse_sound. Qed.
Print Assumptions c02_print_parse.

(* Every clause expression gorm can build (any nesting of And/Or/Not conditions over structured
   conditions and raw SQL), whenever each expression combined with others is parenthesised by
   gorm or is a single factor ([okx]), renders to exactly the printing of the explicit tree
   [toE]: no operand can be regrouped by precedence. *)
Theorem c02_render_is_print : forall x, okx x = true -> render x = prE (toE x) /\ wfE (toE x) = true.
Proof. exact render_is_print. Qed.
Print Assumptions c02_render_is_print.

Theorem c02_where_parses : forall exprs, ok_where exprs = true ->
  parse (where_tokens exprs) = Some (toE_where exprs).
Proof. exact where_parses. Qed.
Print Assumptions c02_where_parses.

(* MAIN.  For every chain of Where / Not / Or calls of any length, over units of any form in the
   domain [calls_domx] — raw strings and named-argument strings that gorm parenthesises or that
   are single factors, maps, structs, single structured conditions, nests of clause.And /
   clause.Or / clause.Not expressions of any depth given to Where or Or ([cdom]: non-empty
   operand lists, raw leaves as above, no single-operand clause.Or directly under clause.And or at
   the top, clause.Not over one operand that is not a clause.And), and groups db.Where(db...)
   of such units nested to any depth; Not applied to flat units, to expression nests ([nneg]:
   a clause.And nest of several members needs a member with a structured negation, any other nest
   is negated as a whole; a single-operand clause.And counts as its operand) and to groups of two
   or more members that contain an OR alternative (negated as a whole) or a member with a
   structured negation (every member negated) — the remaining Not-over-AND shape is the known
   finding;
   groups and chains not starting with Or) — the WHERE text gorm renders parses under SQL precedence, and for EVERY row
   valuation its Kleene value equals the value of the specification: the units' meanings
   combined left to right with AND (Where, Not) and OR (Or) under SQL precedence, Not reading a
   multi-member map/struct as "every member false" and anything else as a whole.
   [neg_pairs_ok]: the atoms gorm renders for negated structured conditions (<>, NOT IN,
   IS NOT NULL ...) are the Kleene negations of the positive atoms (checked per case on SQLite's
   truth tables). *)
Theorem c02_where_semantics : forall v tbl cs exprs s,
  calls_domx tbl cs = true -> neg_pairs_ok v (calls_pairs cs) ->
  build_chain tbl cs = Some exprs -> spec_chain tbl cs = Some s ->
  match exprs with e :: _ => is_single_or e = false | [] => True end ->
  exprs <> [] ->
  ok_where exprs = true /\
  forall E, parse (where_tokens exprs) = Some E -> evE v E = sev v s.
Proof. exact chain_semantics. Qed.
Print Assumptions c02_where_semantics.

(* non-vacuity: Where(raw OR with a tab) . Not(map with two keys) . Or(group of Where.Or) *)
Example c02_instance :
  let tbl := [(1, ["a = 1"%string]); (2, ["b = 2"%string]); (3, ["c"%string]); (4, ["d"%string]);
              (53, ["c <> x"%string]); (54, ["d <> x"%string])] in
  let tab := String (Ascii.ascii_of_nat 9) EmptyString in
  let cs := [(KWhere, URaw ("a = 1 or" ++ tab ++ "b = 2") ("a = 1 or" ++ tab ++ "b = 2"));
             (KNot, UMap [(3, 53); (4, 54)]);
             (KOr, UGroup [(KWhere, UMap [(3, 53)]); (KOr, URaw "b = 2" "b = 2")])]%string in
  calls_domx tbl cs = true /\
  (exists exprs, build_chain tbl cs = Some exprs /\ exprs <> [] /\ ok_where exprs = true) /\
  (exists s, spec_chain tbl cs = Some s).
Proof. cbv zeta. split; [vm_compute; reflexivity|]. split; eexists; [split; [vm_compute; reflexivity|split; [discriminate|vm_compute; reflexivity]]|vm_compute; reflexivity]. Qed.

(* ---- from Go values to units: Statement.BuildCondition's loop over `query, args...` (C02_Args,
   evaluated by check_case on the Go values of every map / struct / key unit of every case) ---- *)

(* no condition once built is dropped by a later argument: the result extends the accumulator, for
   every argument list *)
Theorem c02_args_nothing_dropped : forall args n conds c,
  bc_loop n args conds = Some c -> exists ext, c = conds ++ ext.
Proof. exact bc_loop_extends. Qed.
Print Assumptions c02_args_nothing_dropped.

(* the primary key given as k >= 1 separate bare values (Find(&rows, 1, 2, 3), Where(3, 4),
   Not(1, 2)): ONE condition over all k values - the unit `pk IN (k1..kn)` is indivisible *)
Theorem c02_args_keys_complete : forall k, bc_args (repeat ABare (S k)) = [S k].
Proof. exact keys_complete. Qed.
Print Assumptions c02_args_keys_complete.

(* ... and as one slice of n keys: one condition over all n, nothing for an empty slice *)
Theorem c02_args_key_slice : forall n, bc_args [ABares n] = if (0 <? n)%nat then [n] else [].
Proof. exact key_slice_complete. Qed.
Print Assumptions c02_args_key_slice.

(* typed maps: one condition per entry, whatever its value (blank string, zero, nil) *)
Theorem c02_args_mapss_complete : forall blanks, bc_args [AMapSS blanks] = map (fun _ => 1%nat) blanks.
Proof. exact mapss_complete. Qed.
Print Assumptions c02_args_mapss_complete.
Theorem c02_args_mapsi_complete : forall ars, bc_args [AMapSI ars] = ars.
Proof. exact mapsi_complete. Qed.
Print Assumptions c02_args_mapsi_complete.

(* a struct: its readable non-zero fields; with column names selected after it: exactly the
   selected fields, zero values included, and nothing that follows adds to it *)
Theorem c02_args_struct_plain : forall fs, is_restricted fs = false ->
  length (bc_args [AStruct fs]) = length (filter (fun f => gf_readable f && negb (gf_zero f)) fs).
Proof. exact struct_plain. Qed.
Print Assumptions c02_args_struct_plain.
Theorem c02_args_struct_selected : forall fs strs, is_restricted fs = true ->
  length (bc_args (AStruct fs :: strs)) = length (filter gf_selected fs).
Proof. exact struct_selected. Qed.
Print Assumptions c02_args_struct_selected.

Example c02_args_instance :
  bc_args [ABare; ABare; ABare] = [3%nat] /\ bc_args [AMapSS [true; false]] = [1%nat; 1%nat]
  /\ bc_args [AStruct [mk_gf true true true; mk_gf false false true]; AStr] = [1%nat].
Proof. repeat split. Qed.

(* ---- the primary key of the model value as a unit (C09_Keys, evaluated by check_case on the model
   values of every primary-key case) ---- *)

(* whenever some record handed to Update / Updates / UpdateColumn(s) / Delete has a non-zero key field,
   gorm's key-condition code adds the key unit - for single and composite keys, slices, Model value +
   deleted value, and for an update value that is the model itself whatever Select / Omit name *)
Theorem c02_key_unit_added : forall del vals, has_key vals = true -> key_cond del vals = true.
Proof. intros del vals H. rewrite key_cond_iff. exact H. Qed.
Print Assumptions c02_key_unit_added.

Theorem c02_self_key_ignores_select : forall cols cols',
  map (fun c => (col_pk c, col_zero c)) cols = map (fun c => (col_pk c, col_zero c)) cols' ->
  key_cond false [VSelf cols] = key_cond false [VSelf cols'].
Proof.
  intros cols cols' H. unfold key_cond, update_key_conds. cbn [fold_left].
  rewrite (self_key_ignores_select cols cols' H). reflexivity.
Qed.
Print Assumptions c02_self_key_ignores_select.
