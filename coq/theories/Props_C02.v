(* Props_C02.v — property C02: theorem statements only. *)
From Verif Require Import Base Sem Where_Model.

(* The grammar the WHERE text is read with: printing a well-formed condition tree with the
   minimal-parenthesis printer and parsing it back under SQL precedence (NOT > AND > OR) yields
   the same tree, for trees of any size and nesting depth. *)
Theorem c02_parse_print : forall e, wfE e = true -> exists n, pE n (prE e) = Some (e, []).
Proof. exact parse_print. Qed.
Print Assumptions c02_parse_print.
