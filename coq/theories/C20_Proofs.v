(* C20_Proofs.v *)
From Verif Require Import Base C20_Model.
Open Scope Z_scope.
Lemma no_change_ignore : forall f r, f_ignore f = true -> migrate_column f r = no_change.
Proof. intros f r H. unfold migrate_column. rewrite H. reflexivity. Qed.
