(* C20_Proofs.v — MigrateColumn leaves a matching column alone; AutoMigrate is idempotent relative
   to the dialect (environment hypotheses of the Section); extending a model only adds. *)
From Verif Require Import Base C20_Model.
Open Scope Z_scope.

(* ------------------------------------------------------------------ *)
(* string facts *)
Lemma ascii_eqb_refl : forall a, ascii_eqb a a = true.
Proof. intro a. unfold ascii_eqb. apply Nat.eqb_refl. Qed.
Lemma cs_eqb_refl : forall s, cs_eqb s s = true.
Proof. unfold cs_eqb. induction s as [|c s IH]; cbn; [reflexivity|]. rewrite ascii_eqb_refl, IH. reflexivity. Qed.
Lemma ascii_eqb_eq : forall a b, ascii_eqb a b = true -> a = b.
Proof.
  intros a b H. unfold ascii_eqb in H. apply Nat.eqb_eq in H.
  rewrite <- (ascii_nat_embedding a), <- (ascii_nat_embedding b), H. reflexivity.
Qed.
Lemma cs_eqb_eq : forall a b, cs_eqb a b = true -> a = b.
Proof.
  unfold cs_eqb. induction a as [|x a IH]; intros [|y b] H; cbn in H; try discriminate; [reflexivity|].
  apply andb_prop in H. destruct H as [H1 H2]. apply ascii_eqb_eq in H1. apply IH in H2. congruence.
Qed.
Lemma has_prefix_refl : forall s, has_prefix s s = true.
Proof. induction s as [|c s IH]; cbn; [reflexivity|]. rewrite ascii_eqb_refl, IH. reflexivity. Qed.
Lemma equal_fold_refl : forall s, equal_fold s s = true.
Proof. intro s. apply cs_eqb_refl. Qed.

Lemma no_change_ignore : forall f r, f_ignore f = true -> migrate_column f r = no_change.
Proof. intros f r H. unfold migrate_column. rewrite H. reflexivity. Qed.

Theorem matches_no_change : forall f r, matches f r = true -> migrate_column f r = no_change.
Proof.
  intros f r H. unfold matches in H.
  repeat (apply andb_prop in H; let H' := fresh "M" in destruct H as [H H']).
  rename H into Mt. rename M into Mu. rename M0 into Mc. rename M1 into Md. rename M2 into Mn.
  unfold migrate_column. destruct (f_ignore f); [reflexivity|].
  (* nullable *)
  assert (En : r_nullable_ok r && Bool.eqb (r_nullable r) (f_notnull f) && negb (f_pk f) && negb (r_nullable r) = false).
  { destruct (r_nullable_ok r); [|reflexivity]. cbn in Mn. destruct (Bool.eqb (r_nullable r) (f_notnull f)); [discriminate|reflexivity]. }
  (* comment *)
  assert (Ec : r_comment_ok r && negb (String.eqb (r_comment r) (f_comment f)) && negb (f_pk f) = false).
  { destruct (r_comment_ok r); [|reflexivity]. cbn in Mc. rewrite Mc. reflexivity. }
  (* unique *)
  assert (Eu : migrate_column_unique f r = UNone).
  { unfold migrate_column_unique. destruct (r_unique_ok r); cbn; [|reflexivity].
    destruct (f_pk f); [reflexivity|]. cbn in Mu. apply Bool.eqb_prop in Mu. rewrite Mu.
    destruct (f_unique f); reflexivity. }
  rewrite En, Ec, Eu. clear En Ec Eu Mn Mc Mu.
  (* default: the stage yields its input [alter] *)
  assert (Ed :
    (if f_pk f then false else
     let cur := f_hasdef f && (f_defi f || negb (equal_fold (chars (f_default f)) (chars "NULL"))) in
     let dv := chars (r_default r) in
     if r_default_ok r && negb cur then true
     else if negb (r_default_ok r) && cur then true
     else if cur || r_default_ok r then
       match f_gtype f with
       | GTime => if negb (equal_fold (trim_parens dv) (trim_parens (chars (f_default f)))) then true else false
       | GBool => negb (Bool.eqb (parse_bool dv) (parse_bool (chars (f_default f))))
       | GNum p same_float =>
           (match p with
            | Some s => negb (cs_eqb dv (chars (f_default f))) && negb (cs_eqb dv (chars s))
            | None => negb (cs_eqb dv (chars (f_default f)))
            end) && negb same_float
       | GOther => negb (cs_eqb dv (chars (f_default f)))
       end
     else false) = false).
  { destruct (f_pk f); [reflexivity|]. unfold default_agrees in Md. cbn zeta in *.
    set (cur := f_hasdef f && (f_defi f || negb (equal_fold (chars (f_default f)) (chars "NULL")))) in *.
    apply andb_prop in Md. destruct Md as [Md1 Md2]. apply Bool.eqb_prop in Md1. rewrite Md1.
    destruct cur; cbn; [|reflexivity].
    cbn in Md2. destruct (f_gtype f) as [ | |p sf| ].
    - rewrite orb_false_r in Md2. apply String.eqb_eq in Md2. rewrite Md2, equal_fold_refl. reflexivity.
    - rewrite orb_false_r in Md2. apply String.eqb_eq in Md2. rewrite Md2, Bool.eqb_reflx. reflexivity.
    - destruct (String.eqb (r_default r) (f_default f)) eqn:E1.
      + apply String.eqb_eq in E1. rewrite E1, cs_eqb_refl. destruct p; reflexivity.
      + cbn in Md2. destruct sf; [rewrite andb_false_r; reflexivity|]. cbn in Md2.
        destruct p as [s|]; [|discriminate]. apply String.eqb_eq in Md2. rewrite Md2, cs_eqb_refl.
        rewrite andb_false_r. reflexivity.
    - rewrite orb_false_r in Md2. apply String.eqb_eq in Md2. rewrite Md2, cs_eqb_refl. reflexivity. }
  cbv beta zeta in Ed.
  (* type, size, precision: the stage yields false *)
  unfold type_agrees in Mt. cbn zeta in Mt.
  set (full := trim (lower (chars (f_full f)))) in *. set (real := lower (chars (r_type r))) in *.
  apply orb_prop in Mt. destruct Mt as [Mt|Mt].
  - apply cs_eqb_eq in Mt. rewrite Mt, has_prefix_refl, cs_eqb_refl. rewrite andb_false_r. cbn [negb].
    cbv beta iota zeta. rewrite Ed. reflexivity.
  - apply andb_prop in Mt. destruct Mt as [Mt Mp]. apply andb_prop in Mt. destruct Mt as [Mh Ml].
    rewrite Mh. rewrite andb_false_r. rewrite Ml.
    assert (Ep : r_prec_ok r && negb (f_precision f =? r_prec r) && delimited (dec_of (f_precision f)) (chars (f_dtype f)) = false).
    { destruct (r_prec_ok r); [|reflexivity]. cbn in Mp. rewrite Mp. reflexivity. }
    rewrite Ep. destruct (cs_eqb full real); cbv beta iota zeta; rewrite Ed; reflexivity.
Qed.

(* ------------------------------------------------------------------ *)
(* association lists *)
Section Assoc.
  Context {A : Type}.
  Lemma lookup_update_same : forall k (v : A) l, lookup k l = Some v -> update k v l = l.
  Proof.
    induction l as [|[k' v'] l IH]; intros H; cbn in *; [reflexivity|].
    destruct (String.eqb k' k); [inversion H; reflexivity | rewrite IH by exact H; reflexivity].
  Qed.
  Lemma lookup_update_eq : forall k (v : A) l, lookup k l <> None -> lookup k (update k v l) = Some v.
  Proof.
    induction l as [|[k' v'] l IH]; intros H; cbn in *; [contradiction|].
    destruct (String.eqb k' k) eqn:E; cbn; rewrite E; [reflexivity | apply IH; exact H].
  Qed.
  Lemma lookup_update_neq : forall k k' (v : A) l, k <> k' -> lookup k' (update k v l) = lookup k' l.
  Proof.
    induction l as [|[k0 v0] l IH]; intros H; cbn; [reflexivity|].
    destruct (String.eqb k0 k) eqn:E; cbn.
    - apply String.eqb_eq in E. subst k0. destruct (String.eqb k k') eqn:E2; [apply String.eqb_eq in E2; contradiction | reflexivity].
    - destruct (String.eqb k0 k'); [reflexivity | apply IH; exact H].
  Qed.
  Lemma lookup_app : forall k (l1 l2 : list (string * A)),
    lookup k (l1 ++ l2) = match lookup k l1 with Some v => Some v | None => lookup k l2 end.
  Proof.
    induction l1 as [|[k' v'] l1 IH]; intros l2; cbn; [reflexivity|].
    destruct (String.eqb k' k); [reflexivity | apply IH].
  Qed.
End Assoc.

Lemma nodup_app_parts {A} : forall (a b : list A), NoDup (a ++ b) -> NoDup a /\ NoDup b.
Proof.
  induction a as [|x a IH]; intros b H; cbn in *; [split; [constructor | exact H]|].
  inversion H; subst. destruct (IH b H3) as [Ha Hb]. split; [|exact Hb].
  constructor; [|exact Ha]. intro Hin. apply H2. apply in_or_app. left. exact Hin.
Qed.

Lemma mem_app : forall k a b, mem k (a ++ b) = mem k a || mem k b.
Proof. intros. unfold mem. apply existsb_app. Qed.

(* ------------------------------------------------------------------ *)
Section Idempotent.
  Variable coldesc : Type.
  Variable create : field -> coldesc.
  Variable set_unique : coldesc -> bool -> coldesc.
  Variable report : coldesc -> reported.

  (* environment: what the dialect creates for a field is reported as matching it, and a column
     to which gorm's decision has been applied is reported as matching (tested on every run) *)
  Hypothesis settle_new : forall f, migrate_column f (report (create f)) = no_change.
  Hypothesis settle_old : forall f cd,
    migrate_column f (report (apply_decision coldesc create set_unique report f cd)) = no_change.

  Notation migrate_field := (migrate_field coldesc create set_unique report).
  Notation migrate_fields := (migrate_fields coldesc create set_unique report).
  Notation auto_migrate_table := (auto_migrate_table coldesc create set_unique report).

  Definition settled (cols : list (string * coldesc)) (f : field) : Prop :=
    f_ignore f = true \/
    exists cd, lookup (f_name f) cols = Some cd /\ migrate_column f (report cd) = no_change.

  Lemma settled_noop : forall tn cols f, settled cols f -> migrate_field tn cols f = ([], cols).
  Proof.
    intros tn cols f [Hi|[cd [Hl Hm]]]; unfold C20_Model.migrate_field.
    - rewrite Hi. reflexivity.
    - destruct (f_ignore f); [reflexivity|]. rewrite Hl, Hm. cbn.
      unfold apply_decision. rewrite Hm. cbn. rewrite lookup_update_same by exact Hl. reflexivity.
  Qed.

  Lemma migrate_field_settles : forall tn cols f, settled (snd (migrate_field tn cols f)) f.
  Proof.
    intros tn cols f. unfold C20_Model.migrate_field.
    destruct (f_ignore f) eqn:Ei; [left; exact Ei|].
    destruct (lookup (f_name f) cols) as [cd|] eqn:El; cbn [snd].
    - right. eexists. split; [apply lookup_update_eq; rewrite El; discriminate | apply settle_old].
    - right. exists (create f). split; [|apply settle_new].
      rewrite lookup_app, El. cbn. rewrite String.eqb_refl. reflexivity.
  Qed.

  Lemma migrate_field_keeps : forall tn cols f g,
    f_name g <> f_name f -> settled cols g -> settled (snd (migrate_field tn cols f)) g.
  Proof.
    intros tn cols f g Hn [Hi|[cd [Hl Hm]]]; [left; exact Hi|]. right. exists cd. split; [|exact Hm].
    unfold C20_Model.migrate_field. destruct (f_ignore f); [exact Hl|].
    destruct (lookup (f_name f) cols) eqn:El; cbn [snd].
    - rewrite lookup_update_neq by (intro E; apply Hn; symmetry; exact E). exact Hl.
    - rewrite lookup_app, Hl. reflexivity.
  Qed.

  Lemma migrate_fields_snd : forall tn (fs : list field) cols f r,
    migrate_fields tn cols (f :: r) =
    (fst (migrate_field tn cols f) ++ fst (migrate_fields tn (snd (migrate_field tn cols f)) r),
     snd (migrate_fields tn (snd (migrate_field tn cols f)) r)).
  Proof.
    intros. cbn [C20_Model.migrate_fields].
    destruct (migrate_field tn cols f) as [d1 c1]. cbn [fst snd].
    destruct (migrate_fields tn c1 r) as [d2 c2]. reflexivity.
  Qed.

  Lemma migrate_fields_keeps : forall tn fs cols g,
    ~ In (f_name g) (map f_name fs) -> settled cols g -> settled (snd (migrate_fields tn cols fs)) g.
  Proof.
    induction fs as [|f r IH]; intros cols g Hn Hs; [exact Hs|].
    rewrite (migrate_fields_snd tn (f :: r)). cbn [snd]. apply IH.
    - intro H. apply Hn. right. exact H.
    - apply migrate_field_keeps; [|exact Hs]. intro E. apply Hn. left. symmetry. exact E.
  Qed.

  Lemma migrate_fields_settles : forall tn fs cols,
    NoDup (map f_name fs) -> Forall (settled (snd (migrate_fields tn cols fs))) fs.
  Proof.
    induction fs as [|f r IH]; intros cols Hnd; [constructor|].
    inversion Hnd as [|x l Hx Hl]; subst.
    rewrite (migrate_fields_snd tn (f :: r)). cbn [snd]. constructor.
    - apply migrate_fields_keeps; [exact Hx | apply migrate_field_settles].
    - apply IH. exact Hl.
  Qed.

  Lemma settled_all_noop : forall tn fs cols,
    Forall (settled cols) fs -> migrate_fields tn cols fs = ([], cols).
  Proof.
    induction fs as [|f r IH]; intros cols H; [reflexivity|]. inversion H; subst.
    rewrite (migrate_fields_snd tn (f :: r)). rewrite settled_noop by assumption. cbn [fst snd].
    rewrite IH by assumption. reflexivity.
  Qed.

  (* constraints and indexes *)
  Lemma add_missing_spec : forall mk want have,
    (forall n, mem n have = true -> mem n (snd (add_missing mk have want)) = true)
    /\ (forall n, In n want -> mem n (snd (add_missing mk have want)) = true).
  Proof.
    induction want as [|w r IH]; intros have; cbn; [split; [auto | contradiction]|].
    destruct (mem w have) eqn:E.
    - destruct (IH have) as [H1 H2]. split; [exact H1|]. intros n [Hn|Hn]; [subst; apply H1; exact E | apply H2; exact Hn].
    - destruct (IH (have ++ [w])) as [H1 H2].
      destruct (add_missing mk (have ++ [w]) r) as [d h] eqn:Ea. cbn [snd] in *.
      split.
      + intros n Hn. apply H1. rewrite mem_app, Hn. reflexivity.
      + intros n [Hn|Hn]; [|apply H2; exact Hn]. subst. apply H1. rewrite mem_app. cbn. rewrite String.eqb_refl.
        rewrite orb_true_r. reflexivity.
  Qed.

  Lemma add_missing_noop : forall mk want have,
    (forall n, In n want -> mem n have = true) -> add_missing mk have want = ([], have).
  Proof.
    induction want as [|w r IH]; intros have H; cbn; [reflexivity|].
    rewrite (H w (or_introl eq_refl)). apply IH. intros n Hn. apply H. right. exact Hn.
  Qed.

  Lemma lookup_created : forall (fs : list field) f,
    NoDup (map f_name fs) -> In f fs ->
    lookup (f_name f) (map (fun f => (f_name f, create f)) fs) = Some (create f).
  Proof.
    induction fs as [|g r IH]; intros f Hnd Hin; [contradiction|]. inversion Hnd; subst. cbn.
    destruct Hin as [E|Hin].
    - subst. rewrite String.eqb_refl. reflexivity.
    - destruct (String.eqb (f_name g) (f_name f)) eqn:E; [|apply IH; assumption].
      apply String.eqb_eq in E. exfalso. apply H1. rewrite E. apply in_map. exact Hin.
  Qed.

  Lemma nodup_filter_names : forall (p : field -> bool) fs,
    NoDup (map f_name fs) -> NoDup (map f_name (filter p fs)).
  Proof.
    induction fs as [|f r IH]; intros H; [constructor|]. inversion H; subst. cbn.
    destruct (p f); [|apply IH; assumption]. cbn. constructor; [|apply IH; assumption].
    intro Hin. apply H2. apply in_map_iff in Hin. destruct Hin as [g [Hg Hin]].
    apply filter_In in Hin. rewrite <- Hg. apply in_map. tauto.
  Qed.

  (* AutoMigrate, then AutoMigrate of the same model: the second run issues nothing *)
  Theorem auto_migrate_idempotent : forall m t,
    NoDup (map f_name (m_fields m)) ->
    fst (auto_migrate_table m (Some (snd (auto_migrate_table m t)))) = [].
  Proof.
    intros m t Hnd. destruct t as [t|].
    - (* existing table *)
      unfold C20_Model.auto_migrate_table at 2.
      destruct (migrate_fields (m_table m) (t_cols t) (m_fields m)) as [d1 cols] eqn:E1.
      destruct (add_missing (CreateConstraint (m_table m)) (t_constraints t) (m_constraints m)) as [d2 cns] eqn:E2.
      destruct (add_missing (CreateIndex (m_table m)) (t_indexes t) (m_indexes m)) as [d3 idxs] eqn:E3.
      cbn [snd]. unfold C20_Model.auto_migrate_table. cbn [t_cols t_indexes t_constraints].
      assert (Hs : Forall (settled cols) (m_fields m)).
      { pose proof (migrate_fields_settles (m_table m) (m_fields m) (t_cols t) Hnd) as H. rewrite E1 in H. exact H. }
      rewrite (settled_all_noop _ _ _ Hs).
      rewrite add_missing_noop.
      2:{ intros n Hn. pose proof (add_missing_spec (CreateConstraint (m_table m)) (m_constraints m) (t_constraints t)) as [_ H].
          rewrite E2 in H. apply H. exact Hn. }
      rewrite add_missing_noop.
      2:{ intros n Hn. pose proof (add_missing_spec (CreateIndex (m_table m)) (m_indexes m) (t_indexes t)) as [_ H].
          rewrite E3 in H. apply H. exact Hn. }
      reflexivity.
    - (* the table was created by the first run *)
      cbn [C20_Model.auto_migrate_table snd]. unfold C20_Model.auto_migrate_table. cbn [t_cols t_indexes t_constraints].
      assert (Hs : Forall (settled (map (fun f => (f_name f, create f)) (migratable m))) (m_fields m)).
      { apply Forall_forall. intros f Hin. destruct (f_ignore f) eqn:Ei; [left; exact Ei|]. right.
        exists (create f). split; [|apply settle_new].
        apply lookup_created.
        - apply nodup_filter_names. exact Hnd.
        - unfold migratable. apply filter_In. split; [exact Hin | rewrite Ei; reflexivity]. }
      rewrite (settled_all_noop _ _ _ Hs).
      rewrite !add_missing_noop; [reflexivity | |].
      + intros n Hn. unfold mem. apply existsb_exists. exists n. split; [exact Hn | apply String.eqb_refl].
      + intros n Hn. unfold mem. apply existsb_exists. exists n. split; [exact Hn | apply String.eqb_refl].
  Qed.

  (* ---- extension: v2 = v1 plus fields, constraints, indexes ---- *)
  Definition additive (d : ddl) : Prop :=
    match d with AddColumn _ _ | CreateIndex _ _ | CreateConstraint _ _ => True | _ => False end.

  Lemma add_missing_additive_c : forall t want have,
    Forall additive (fst (add_missing (CreateConstraint t) have want)).
  Proof.
    induction want as [|w r IH]; intros have; cbn; [constructor|].
    destruct (mem w have); [apply IH|].
    specialize (IH (have ++ [w])). destruct (add_missing (CreateConstraint t) (have ++ [w]) r). cbn in *.
    constructor; [exact I | exact IH].
  Qed.
  Lemma add_missing_additive_i : forall t want have,
    Forall additive (fst (add_missing (CreateIndex t) have want)).
  Proof.
    induction want as [|w r IH]; intros have; cbn; [constructor|].
    destruct (mem w have); [apply IH|].
    specialize (IH (have ++ [w])). destruct (add_missing (CreateIndex t) (have ++ [w]) r). cbn in *.
    constructor; [exact I | exact IH].
  Qed.

  (* new fields whose columns do not exist yet are added; nothing else happens to columns *)
  Lemma migrate_new_fields_additive : forall tn extra cols,
    NoDup (map f_name extra) ->
    (forall f, In f extra -> lookup (f_name f) cols = None) ->
    Forall additive (fst (migrate_fields tn cols extra)).
  Proof.
    induction extra as [|f r IH]; intros cols Hnd Hnew; [constructor|].
    inversion Hnd; subst. rewrite (migrate_fields_snd tn (f :: r)). cbn [fst].
    apply Forall_app. split.
    - unfold C20_Model.migrate_field. destruct (f_ignore f); [constructor|].
      rewrite (Hnew f (or_introl eq_refl)). repeat constructor.
    - apply IH; [assumption|]. intros g Hg.
      unfold C20_Model.migrate_field. destruct (f_ignore f); [apply Hnew; right; exact Hg|].
      rewrite (Hnew f (or_introl eq_refl)). cbn [snd]. rewrite lookup_app, (Hnew g (or_intror Hg)). cbn.
      destruct (String.eqb (f_name f) (f_name g)) eqn:E; [|reflexivity].
      apply String.eqb_eq in E. exfalso. apply H1. rewrite E. apply in_map. exact Hg.
  Qed.

  Lemma migrate_fields_app : forall tn a b cols,
    fst (migrate_fields tn cols (a ++ b)) =
    fst (migrate_fields tn cols a) ++ fst (migrate_fields tn (snd (migrate_fields tn cols a)) b).
  Proof.
    induction a as [|f r IH]; intros b cols; [reflexivity|].
    rewrite <- app_comm_cons. rewrite !(migrate_fields_snd tn (f :: r)). cbn [fst snd].
    rewrite IH, app_assoc. reflexivity.
  Qed.

  Theorem extend_only_adds : forall m1 t extra xcons xidx,
    NoDup (map f_name (m_fields m1 ++ extra)) ->
    let t1 := snd (auto_migrate_table m1 t) in
    (forall f, In f extra -> lookup (f_name f) (t_cols t1) = None) ->
    let m2 := mk_model (m_table m1) (m_fields m1 ++ extra) (m_constraints m1 ++ xcons) (m_indexes m1 ++ xidx) in
    Forall additive (fst (auto_migrate_table m2 (Some t1))).
  Proof.
    intros m1 t extra xcons xidx Hnd t1 Hnew m2.
    assert (Hnd1 : NoDup (map f_name (m_fields m1))).
    { rewrite map_app in Hnd. apply nodup_app_parts in Hnd. tauto. }
    assert (Hnd2 : NoDup (map f_name extra)).
    { rewrite map_app in Hnd. apply nodup_app_parts in Hnd. tauto. }
    (* the columns of m1 are settled in t1 *)
    assert (Hs : Forall (settled (t_cols t1)) (m_fields m1)).
    { unfold t1. destruct t as [t|].
      - unfold C20_Model.auto_migrate_table.
        destruct (migrate_fields (m_table m1) (t_cols t) (m_fields m1)) as [d1 cols] eqn:E1.
        destruct (add_missing (CreateConstraint (m_table m1)) (t_constraints t) (m_constraints m1)) as [d2 cns].
        destruct (add_missing (CreateIndex (m_table m1)) (t_indexes t) (m_indexes m1)) as [d3 idxs].
        cbn [snd t_cols].
        pose proof (migrate_fields_settles (m_table m1) (m_fields m1) (t_cols t) Hnd1) as H. rewrite E1 in H. exact H.
      - cbn [C20_Model.auto_migrate_table snd t_cols].
        apply Forall_forall. intros f Hin. destruct (f_ignore f) eqn:Ei; [left; exact Ei|]. right.
        exists (create f). split; [|apply settle_new].
        apply lookup_created; [apply nodup_filter_names; exact Hnd1|].
        unfold migratable. apply filter_In. split; [exact Hin | rewrite Ei; reflexivity]. }
    unfold C20_Model.auto_migrate_table. cbn [m_table m_fields m_constraints m_indexes m2].
    destruct (migrate_fields (m_table m1) (t_cols t1) (m_fields m1 ++ extra)) as [d1 cols] eqn:E1.
    pose proof (add_missing_additive_c (m_table m1) (m_constraints m1 ++ xcons) (t_constraints t1)) as Hc.
    destruct (add_missing (CreateConstraint (m_table m1)) (t_constraints t1) (m_constraints m1 ++ xcons)) as [d2 cns].
    pose proof (add_missing_additive_i (m_table m1) (m_indexes m1 ++ xidx) (t_indexes t1)) as Hi.
    destruct (add_missing (CreateIndex (m_table m1)) (t_indexes t1) (m_indexes m1 ++ xidx)) as [d3 idxs].
    cbn [fst] in *. apply Forall_app. split; [|apply Forall_app; split; assumption].
    assert (Ed : d1 = fst (migrate_fields (m_table m1) (t_cols t1) (m_fields m1 ++ extra))) by (rewrite E1; reflexivity).
    rewrite Ed, migrate_fields_app, (settled_all_noop _ _ _ Hs). cbn [fst snd app].
    apply migrate_new_fields_additive; assumption.
  Qed.
End Idempotent.

(* ------------------------------------------------------------------ *)
(* data: a table's rows as association lists; what the additive statements do to them *)
Definition drow := list (string * string).
Definition exec_additive (d : ddl) (fill : string) (rows : list drow) : list drow :=
  match d with
  | AddColumn _ c => map (fun r => r ++ [(c, fill)]) rows     (* every row gets the new cell *)
  | _ => rows                                                 (* CreateIndex / CreateConstraint *)
  end.

Theorem additive_preserves_data : forall ds fill rows,
  length (fold_left (fun rs d => exec_additive d fill rs) ds rows) = length rows
  /\ forall i c v, lookup c (nth i rows []) = Some v ->
       lookup c (nth i (fold_left (fun rs d => exec_additive d fill rs) ds rows) []) = Some v.
Proof.
  induction ds as [|d ds IH]; intros fill rows; cbn [fold_left]; [split; auto|].
  destruct (IH fill (exec_additive d fill rows)) as [Hl Hc]. split.
  - rewrite Hl. destruct d; cbn; try reflexivity. apply map_length.
  - intros i c v Hv. apply Hc. destruct d; cbn; try exact Hv.
    destruct (Nat.lt_ge_cases i (length rows)) as [Hi|Hi].
    + rewrite nth_indep with (d' := (fun r : drow => r ++ [(c0, fill)]) []) by (rewrite map_length; exact Hi).
      change ([] ++ [(c0, fill)]) with ((fun r : list (string * string) => r ++ [(c0, fill)]) []).
      rewrite map_nth. unfold drow in *.
      rewrite lookup_app, Hv. reflexivity.
    + rewrite nth_overflow in Hv by exact Hi. discriminate.
Qed.
