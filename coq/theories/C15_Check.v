(* C15_Check.v — correspondence checker for C15: evaluates the model on the inputs the
   implementation ran, and the specification on the outputs the implementation produced. *)
From Verif Require Export Base C15_Model C15_Scan C15_Fill C15_Count.
Open Scope Z_scope.

Definition rows_eqb := zzlist_eqb.
Definition orow_eqb (a b : option row) := option_eqb (fun x y => (fst x =? fst y) && (snd x =? snd y)) a b.

Record case := mk_case {
  c_tbl : list row; c_cond : cond; c_ord : ordering; c_lops : list lop; c_bs : Z;
  (* observed from gorm; one field per read path *)
  o_find : list row; o_find_ra : Z;
  o_maps : list row; o_rows : list row; o_scan : list row;
  o_pluck_id : list Z; o_pluck_v : list Z;
  o_count : Z;
  o_first : option row; o_last : option row; o_take : option row;
  o_batches : list (list row); o_batches_ra : Z;
  (* further destination kinds *)
  o_ptrs : list row;                      (* Find into a slice of pointers *)
  o_array : list row;                     (* Find into a pre-filled array: the slots that are not zero afterwards *)
  o_reused : list row; o_reused_ra : Z;   (* Find into a slice that already holds 3 records (capacity 8) *)
  o_single : option row; o_single_ra : Z; (* Find into one struct: the first row *)
  o_prim : option Z; o_prim_ra : Z;       (* Select(id).Scan into one integer: keeps the last row *)
  (* Find into a slice of maps that already holds the map (-9, -9); First into such a slice reports
     ErrRecordNotFound *)
  o_reusedmaps : list row; o_reusedmaps_ra : Z; o_reusedfirst_nf : bool;
  o_scanmaps : list row; o_scanmaps_ra : Z;   (* Scan into a slice of maps *)
  o_rowsmaps : list row;                      (* Rows + ScanRows into a slice of maps, row by row *)
  o_firstmap : option row; o_lastmap : option row; o_takemap : option row;  (* single-record finders into a map *)
  o_errs : Z;  (* number of unexpected errors reported by any path *)
  (* Count / Find into structs / Find into maps under a Select of columns (-1: not run) *)
  o_selcount : Z; o_selfind : Z; o_selmaps : Z;
  (* a table with the composite key (a, b) and value v; probes ((finder, (a, b)), (found, v)) of
     First / Take / Last into a destination carrying the key: found 1, 0 = ErrRecordNotFound,
     2 = another row or another error *)
  c_ck : list (Z * Z * Z);
  o_ckprobes : list ((Z * (Z * Z)) * (Z * Z));
  (* one inline primary key given to First / Take / Last / Find (chains without limit / offset) *)
  c_inl : Z; o_inl : list (option row); o_inlfind : list row;
  (* Count, then Limit(2).Find continued from its result on a reusable handle; the page without Count *)
  o_cpage : list row; o_page : list row; o_cpage_n : Z;
  (* sibling chains of a reusable parent carrying three tie orderings: + Order(id), + Order(id desc) *)
  o_sibasc : list row; o_sibdesc : list row;
  (* Find through gorm's own LIMIT / OFFSET rendering (not run when the statement is not valid SQLite) *)
  g_run : bool; o_gfind : list row;
  (* the chain under a Select list ((reported name, source column); [] = no Select) read into a slice
     of structs and into a slice of maps: every record field by field, every map entry by entry *)
  c_sel : sel; o_srecs : list assoc; o_mrecs : list assoc;
  (* Statement.Selects of the Count / Find comparison under a Select (o_selcount) *)
  c_csel : list string
}.

Definition has_lops (c : case) := match c_lops c with [] => false | _ => true end.
Definition bs_run (c : case) := 0 <? c_bs c.

(* the harness's destinations: an array of 16 slots and a slice of 3 records, both holding
   records with negative keys before the call *)
Definition array_len : nat := 16.
Definition junk : list row := [(-3, -3); (-4, -3); (-5, -3)].
Definition dest_eqb (obs : list row) (obs_ra : Z) (s : sstate) : bool :=
  rows_eqb obs (s_dest s) && (obs_ra =? s_ra s).

Definition model_agrees (c : case) : bool :=
  let st := apply_lops (c_lops c) in
  let f := find (c_tbl c) (c_cond c) (c_ord c) (st_of st) in
  (* the statement's rows [f] go through scan.go's dispatch on the destination kind *)
  dest_eqb (o_find c) (o_find_ra c) (scan DStructSlice [] f)
  && rows_eqb (o_maps c) (s_dest (scan DMapSlice [] f))
  && rows_eqb (o_rows c) f && rows_eqb (o_scan c) (s_dest (scan DStructSlice [] f))
  && rows_eqb (o_ptrs c) (s_dest (scan DPtrSlice [] f))
  && rows_eqb (o_array c) (s_dest (scan (DArray array_len) junk f))
  && dest_eqb (o_reused c) (o_reused_ra c) (scan DStructSlice junk f)
  && dest_eqb (o_scanmaps c) (o_scanmaps_ra c) (scan DMapSlice [] f) && rows_eqb (o_rowsmaps c) f
  && dest_eqb (o_reusedmaps c) (o_reusedmaps_ra c) (scan DMapSlice [(-9, -9)] f)
  && Bool.eqb (o_reusedfirst_nf c)
       (scan_not_found true (scan DMapSlice [(-9, -9)]
          (match first_ (c_tbl c) (c_cond c) (c_ord c) st with Some r => [r] | None => [] end)))
  && orow_eqb (o_firstmap c) (first_ (c_tbl c) (c_cond c) (c_ord c) st)
  && orow_eqb (o_lastmap c) (last_ (c_tbl c) (c_cond c) (c_ord c) st)
  && orow_eqb (o_takemap c) (take_ (c_tbl c) (c_cond c) (c_ord c) st)
  && orow_eqb (o_single c) (hd_error (s_dest (scan DStruct [] f))) && (o_single_ra c =? s_ra (scan DStruct [] f))
  && option_eqb Z.eqb (o_prim c) (option_map fst (hd_error (s_dest (scan DPrim [] f)))) && (o_prim_ra c =? s_ra (scan DPrim [] f))
  && zlist_eqb (o_pluck_id c) (map fst f) && zlist_eqb (o_pluck_v c) (map snd f)
  && (has_lops c || (o_count c =? count (c_tbl c) (c_cond c)))
  && orow_eqb (o_first c) (first_ (c_tbl c) (c_cond c) (c_ord c) st)
  && orow_eqb (o_last c) (last_ (c_tbl c) (c_cond c) (c_ord c) st)
  && orow_eqb (o_take c) (take_ (c_tbl c) (c_cond c) (c_ord c) st)
  && (negb (bs_run c) ||
      match find_in_batches (fib_fuel (c_tbl c)) (matches (c_cond c) (c_tbl c)) st (c_bs c) with
      | Some bl => list_eqb rows_eqb (o_batches c) bl
                   && (o_batches_ra c =? Z.of_nat (length (List.concat bl)))
      | None => false
      end).

(* the property, evaluated on what the implementation returned *)
Definition is_min_of (r : option row) (l : list row) : bool :=
  match r, l with
  | None, [] => true
  | Some x, _ :: _ => existsb (fun y => (fst x =? fst y) && (snd x =? snd y)) l
                      && forallb (fun y => fst x <=? fst y) l
  | _, _ => false
  end.
Definition is_max_of (r : option row) (l : list row) : bool :=
  match r, l with
  | None, [] => true
  | Some x, _ :: _ => existsb (fun y => (fst x =? fst y) && (snd x =? snd y)) l
                      && forallb (fun y => fst y <=? fst x) l
  | _, _ => false
  end.
Fixpoint strictly_inc (l : list Z) : bool :=
  match l with
  | a :: ((b :: _) as r) => (a <? b) && strictly_inc r
  | _ => true
  end.

Definition spec_holds (c : case) : bool :=
  let f := o_find c in
  (o_errs c =? 0)
  (* "later positive values override, negative cancel": Find = the reference reading *)
  && (negb (last_nonzero (c_lops c)) ||
      rows_eqb f (let after := skipn (Z.to_nat (ref_off (c_lops c))) (ordered (c_ord c) (matches (c_cond c) (c_tbl c))) in
                  match ref_lim (c_lops c) with Some n => firstn (Z.to_nat n) after | None => after end))
  && rows_eqb (o_maps c) f && rows_eqb (o_rows c) f && rows_eqb (o_scan c) f
  && zlist_eqb (o_pluck_id c) (map fst f) && zlist_eqb (o_pluck_v c) (map snd f)
  && rows_eqb (o_ptrs c) f && rows_eqb (o_array c) (firstn array_len f)
  (* a destination that held records before reports the rows of this call only *)
  && rows_eqb (o_reused c) f && (o_reused_ra c =? Z.of_nat (length f))
  && rows_eqb (o_scanmaps c) f && (o_scanmaps_ra c =? Z.of_nat (length f)) && rows_eqb (o_rowsmaps c) f
  (* a slice of maps is appended to: the rows of this call follow what it held, RowsAffected counts
     the rows of this call, and a single-record finder reports not-found exactly when nothing matches *)
  && rows_eqb (o_reusedmaps c) ((-9, -9) :: f) && (o_reusedmaps_ra c =? Z.of_nat (length f))
  && Bool.eqb (o_reusedfirst_nf c) (match o_first c with None => true | Some _ => false end)
  (* single-record finders agree whatever the destination kind (struct or map), incl. not-found *)
  && orow_eqb (o_firstmap c) (o_first c) && orow_eqb (o_lastmap c) (o_last c) && orow_eqb (o_takemap c) (o_take c)
  && orow_eqb (o_single c) (hd_error f)
  && option_eqb Z.eqb (o_prim c) (option_map fst (hd_error (rev f))) && (o_prim_ra c =? Z.of_nat (length f))
  && (o_find_ra c =? Z.of_nat (length f))
  (* Count, First, Last, not-found: only for chains without limit/offset *)
  && (has_lops c ||
      ((o_count c =? Z.of_nat (length f))
       && match c_ord c with
          | OrdNone => is_min_of (o_first c) f && is_max_of (o_last c) f
          | _ => true
          end
       && (match o_first c, f with None, [] => true | Some _, _ :: _ => true | _, _ => false end)
       && (match o_take c, f with None, [] => true | Some _, _ :: _ => true | _, _ => false end)))
  (* FindInBatches (pk order chains only): same rows as Find, once, in key order, sized <= bs *)
  && (negb (bs_run c) ||
      (rows_eqb (List.concat (o_batches c)) f
       && strictly_inc (map fst (List.concat (o_batches c)))
       && forallb (fun b => match b with [] => false | _ => Z.of_nat (length b) <=? c_bs c end) (o_batches c)
       && (o_batches_ra c =? Z.of_nat (length f)))).

(* ---- selected columns, composite keys ---- *)
Definition ck_lookup (t : list (Z * Z * Z)) (a b : Z) : option Z :=
  option_map snd (List.find (fun r => (fst (fst r) =? a) && (snd (fst r) =? b)) t).
Definition probe_ok (t : list (Z * Z * Z)) (p : (Z * (Z * Z)) * (Z * Z)) : bool :=
  let '((_, (a, b)), (found, v)) := p in
  match ck_lookup t a b with
  | Some w => (found =? 1) && (v =? w)
  | None => found =? 0
  end.
Definition extra_model_agrees (c : case) : bool :=
  let n := Z.of_nat (length (matches (c_cond c) (c_tbl c))) in
  ((o_selcount c =? -1) || ((o_selfind c =? n) && (o_selmaps c =? n)
                             && (o_selcount c =? count_sel (c_csel c) (matches (c_cond c) (c_tbl c)))))
  && forallb (probe_ok (c_ck c)) (o_ckprobes c).
(* the property on what gorm returned: Count equals the rows Find returns whatever columns are
   selected; a single-record finder returns the row with the destination's key, and
   ErrRecordNotFound exactly when there is none *)
Definition extra_spec_holds (c : case) : bool :=
  ((o_selcount c =? -1) ||
   ((o_selcount c =? o_selfind c) && (o_selcount c =? o_selmaps c) && (o_selfind c =? Z.of_nat (length (o_find c)))))
  && forallb (probe_ok (c_ck c)) (o_ckprobes c).

(* ---- inline key, pagination after Count, sibling orderings ---- *)
Definition inl_set (c : case) : list row := matches (with_key (c_cond c) (c_inl c)) (c_tbl c).
Definition inl_checked (c : case) : bool :=
  negb (has_lops c) && match c_ord c with OrdNone => true | _ => false end.
Definition page_of (c : case) : list row :=
  find (c_tbl c) (c_cond c) (c_ord c) (st_of (apply_lops (c_lops c ++ [OLimit 2]))).
Definition more_model_agrees (c : case) : bool :=
  let st := st_of (apply_lops (c_lops c)) in
  (negb (inl_checked c) ||
   match o_inl c with
   | [f; t; l] => orow_eqb f (hd_error (inl_set c)) && orow_eqb t (hd_error (inl_set c))
                  && orow_eqb l (hd_error (rev (inl_set c)))
   | _ => false
   end && rows_eqb (o_inlfind c) (inl_set c))
  && rows_eqb (o_page c) (page_of c) && rows_eqb (o_cpage c) (page_of c)
  && (negb (g_run c) || rows_eqb (o_gfind c) (find (c_tbl c) (c_cond c) (c_ord c) st))
  && (match c_ord c with
      | OrdNone => rows_eqb (o_sibasc c) (find (c_tbl c) (c_cond c) OrdIdAsc st)
                   && rows_eqb (o_sibdesc c) (find (c_tbl c) (c_cond c) OrdIdDesc st)
      | _ => true
      end).
(* the property: an inline key is one more condition of the chain (combined like a Where call, C02):
   First / Last return the matching rows with the lowest / highest key, Take one of them, all three
   ErrRecordNotFound exactly when none matches, Find all of them; a page read after Count is the page
   read without it and Count is the number of rows without limit; siblings read in their own order *)
Definition more_spec_holds (c : case) : bool :=
  (negb (inl_checked c) ||
   match o_inl c with
   | [f; t; l] => is_min_of f (inl_set c) && is_max_of l (inl_set c)
                  && match t, inl_set c with
                     | None, [] => true
                     | Some x, _ :: _ => existsb (fun y => (fst x =? fst y) && (snd x =? snd y)) (inl_set c)
                     | _, _ => false
                     end
   | _ => false
   end && rows_eqb (o_inlfind c) (inl_set c))
  && rows_eqb (o_cpage c) (o_page c)
  && (negb (g_run c) || rows_eqb (o_gfind c) (o_find c))
  && (has_lops c || (o_cpage_n c =? Z.of_nat (length (o_find c))))
  && (match c_ord c with
      | OrdNone => has_lops c ||
                   (rows_eqb (o_sibdesc c) (rev (o_sibasc c))
                    && strictly_inc (map fst (o_sibasc c))
                    && (o_find_ra c =? Z.of_nat (length (o_sibasc c))))
      | _ => true
      end).

(* ---- one record / one map from one driver row (C15_Fill) ---- *)
Definition val_eqb (a b : val) : bool := option_eqb Z.eqb a b.
Definition entry_eqb (a b : string * val) : bool := String.eqb (fst a) (fst b) && val_eqb (snd a) (snd b).
Definition assoc_eqb := list_eqb entry_eqb.
(* maps have no order: entry-wise inclusion both ways *)
Definition assoc_sub (a b : assoc) : bool :=
  forallb (fun kv => option_eqb val_eqb (get_key (fst kv) b) (Some (snd kv))) a.
Definition assoc_equiv (a b : assoc) : bool :=
  assoc_sub a b && assoc_sub b a && (length a =? length b)%nat.
Definition fill_model_agrees (c : case) : bool :=
  let f := find (c_tbl c) (c_cond c) (c_ord c) (st_of (apply_lops (c_lops c))) in
  list_eqb assoc_eqb (o_srecs c) (struct_recs (c_sel c) f)
  && list_eqb assoc_equiv (o_mrecs c) (map_recs (c_sel c) f)
  && list_eqb val_eqb (map Some (o_pluck_id c)) (plucked "id" f)
  && list_eqb val_eqb (map Some (o_pluck_v c)) (plucked "v" f).
(* the property on what gorm returned: the struct read and the map read of one statement deliver
   one record per row Find returns and agree on every column - a column that names a field shows the
   same value in the record and in the map (a plain field shows NULL as zero), a field that no
   column names is zero / nil in a fresh record; without a Select both show the table's row *)
Definition rec_map_agree (sm : assoc * assoc) : bool :=
  let (s, m) := sm in
  forallb (fun kv => match field_kind item_fields (fst kv) with
                     | Some b => option_eqb val_eqb (get_key (fst kv) s) (Some (norm b (snd kv)))
                     | None => true
                     end) m
  && forallb (fun kv => match get_key (fst kv) m, field_kind item_fields (fst kv) with
                        | None, Some b => val_eqb (snd kv) (norm b None)
                        | _, _ => true
                        end) s.
Definition table_row_of (r : row) : assoc := map (fun f => (fst f, col_value (fst f) r)) item_fields.
Definition fill_spec_holds (c : case) : bool :=
  (length (o_srecs c) =? length (o_find c))%nat && (length (o_mrecs c) =? length (o_find c))%nat
  && forallb rec_map_agree (combine (o_srecs c) (o_mrecs c))
  && match c_sel c with
     | [] => list_eqb assoc_equiv (o_mrecs c) (map table_row_of (o_find c))
     | _ => true
     end.

Definition check_case (c : case) : N :=
  code_of (model_agrees c && extra_model_agrees c && more_model_agrees c && fill_model_agrees c)
          (spec_holds c && extra_spec_holds c && more_spec_holds c && fill_spec_holds c).
