(* C12_Proofs7.v — the object-level model (C12_Elems) is the key-level model (C12_Model) on the
   erased state, for ALL arguments: whatever the in-memory foreign keys of the passed objects are and
   whichever arguments are taken from the owner's own relation field.  And: every element a has-one /
   has-many field holds carries its owner's key. *)
From Verif Require Import Base C12_Model C12_Elems C12_Proofs C12_Proofs2 C12_Proofs3.
Open Scope Z_scope.

Lemma st_eta s : mk_st (rows s) (joins s) (tgt s) (mem s) = s.
Proof. destruct s; reflexivity. Qed.

Lemma upsert_fk_some t o r : upsert_fk t (Some o) r = upsert t o r.
Proof. induction r as [|[t' f] r IH]; cbn; [reflexivity|]. destruct (t' =? t); [reflexivity|]. rewrite IH. reflexivity. Qed.

Lemma fst_set_keys k o m : map fst (set_keys k o m) = map fst m.
Proof. destruct k; cbn; try reflexivity; rewrite map_map; reflexivity. Qed.

Lemma last_or_e_fst d v : map fst (last_or_e d v) = last_or (map fst d) (map fst v).
Proof. unfold last_or_e, last_or, elem in *. rewrite <- map_rev. destruct (rev v); reflexivity. Qed.

Lemma new_field_e_fst k clear m a :
  map fst (new_field_e k clear m a) = new_field k clear (map fst m) (map fst (map (resolve m) a)).
Proof.
  unfold new_field_e, new_field. destruct k.
  - rewrite last_or_e_fst. destruct clear; reflexivity.
  - rewrite map_app. destruct clear; reflexivity.
  - rewrite last_or_e_fst. destruct clear; reflexivity.
  - rewrite map_app. destruct clear; reflexivity.
Qed.

Lemma fold_upsert_keys o m : forall r,
  fold_left (fun r (x : elem) => upsert_fk (fst x) (snd x) r) (map (fun x : elem => (fst x, Some o)) m) r
  = fold_left (fun r t => upsert t o r) (map fst m) r.
Proof. induction m as [|x m IH]; intro r; cbn; [reflexivity|]. rewrite upsert_fk_some. apply IH. Qed.

Lemma fold_join_fst o (m : list elem) : forall j,
  fold_left (fun j (x : elem) => add_join (o, fst x) j) m j = fold_left (fun j t => add_join (o, t) j) (map fst m) j.
Proof. induction m as [|x m IH]; intro j; cbn; [reflexivity|]. apply IH. Qed.

(* the save of one owner: the stored foreign key is the OWNER's key, whatever key the object carried *)
Lemma save_owner_e_ref k o m s : save_owner_e k o (set_keys k o m) s = save_owner k o (map fst m) s.
Proof.
  destruct k; cbn [save_owner_e save_owner set_keys].
  - rewrite fold_upsert_keys. reflexivity.
  - rewrite fold_upsert_keys. reflexivity.
  - destruct m; reflexivity.
  - rewrite fold_join_fst. reflexivity.
Qed.

Lemma save_loop_e_ref k clear : forall os vs ms s,
  save_loop k clear os (erase_vals ms vs) (map (map fst) ms) s
  = (map (map fst) (fst (save_loop_e k clear os vs ms s)), snd (save_loop_e k clear os vs ms s)).
Proof.
  induction os as [|o os IH]; intros vs ms s; [reflexivity|].
  destruct ms as [|m ms]; [destruct vs; reflexivity|].
  destruct vs as [|v vs]; [reflexivity|].
  unfold erase_vals. cbn [combine map fst snd save_loop save_loop_e]. fold (erase_vals ms vs).
  set (nf := new_field_e k clear m v).
  assert (E1 : new_field k clear (map fst m) (map fst (map (resolve m) v)) = map fst nf)
    by (symmetry; apply new_field_e_fst).
  rewrite E1. rewrite <- save_owner_e_ref. rewrite IH.
  destruct (save_loop_e k clear os vs ms (save_owner_e k o (set_keys k o nf) s)) as [rest s2].
  cbn [fst snd map]. rewrite fst_set_keys. reflexivity.
Qed.

Lemma to_st_with_mem s m : to_st (with_mem s m) = mk_st (rows s) (joins s) (tgt s) (map (map fst) m).
Proof. reflexivity. Qed.

Lemma save_assoc_e_ref k clear os vs e :
  to_st (save_assoc_e k clear os vs e) = save_assoc k clear os (erase_vals (e_mem e) vs) (to_st e).
Proof.
  unfold save_assoc_e, save_assoc. cbn [mem to_st].
  pose proof (save_loop_e_ref k clear os vs (e_mem e) (to_st e)) as H. cbn [to_st] in H. rewrite H.
  destruct (save_loop_e k clear os vs (e_mem e) _) as [ms s']. reflexivity.
Qed.
Lemma save_assoc_e_mem k clear os vs e :
  map (map fst) (e_mem (save_assoc_e k clear os vs e)) = mem (save_assoc k clear os (erase_vals (e_mem e) vs) (to_st e)).
Proof. rewrite <- save_assoc_e_ref. reflexivity. Qed.

Lemma detach_mem k u os vs old c s : mem (detach_others k u os vs old c s) = mem s.
Proof. destruct k; reflexivity. Qed.
Lemma clear_mem k u os s : mem (do_clear k u os s) = map (fun _ => []) (mem s).
Proof. unfold do_clear. rewrite detach_mem. reflexivity. Qed.
Lemma delete_mem k u os ts s : mem (do_delete k u os ts s) = map (filter (fun t => negb (memz t ts))) (mem s).
Proof. destruct k; reflexivity. Qed.

Lemma filter_map_fst (P : Z -> bool) (l : list elem) :
  map fst (filter (fun x => P (fst x)) l) = filter P (map fst l).
Proof. induction l as [|x l IH]; cbn; [reflexivity|]. destruct (P (fst x)); cbn; rewrite IH; reflexivity. Qed.

Lemma with_mem_same s m : map (map fst) m = mem s -> to_st (with_mem s m) = s.
Proof. intro H. rewrite to_st_with_mem, H. apply st_eta. Qed.

Lemma replace_e_ref k u os vs e :
  to_st (do_replace_e k u os vs e) = do_replace k u os (erase_vals (e_mem e) vs) (to_st e).
Proof.
  unfold do_replace_e, do_replace. rewrite save_assoc_e_ref.
  apply with_mem_same. rewrite detach_mem. rewrite <- save_assoc_e_ref. reflexivity.
Qed.

(* ONE operation on objects = the operation on their primary keys *)
Theorem step_refines k os e u eo :
  to_st (assoc_step_e k os e (u, eo)) = assoc_step k os (to_st e) (u, erase_op (e_mem e) eo).
Proof.
  destruct eo as [vs|vs|ts| |]; cbn [assoc_step_e assoc_step erase_op].
  - unfold do_append_e, do_append. destruct k; try apply replace_e_ref; apply save_assoc_e_ref.
  - apply replace_e_ref.
  - unfold do_delete_e. apply with_mem_same. rewrite delete_mem. cbn [mem to_st].
    rewrite !map_map. apply map_ext. intro m. apply (filter_map_fst (fun t => negb (memz t ts))).
  - unfold do_clear_e. apply with_mem_same. rewrite clear_mem. cbn [mem to_st]. rewrite !map_map. reflexivity.
  - reflexivity.
Qed.

(* ... any history *)
Theorem final_refines k os : forall ops e,
  to_st (final_e k os e ops) = final k os (to_st e) (erase_hist k os e ops).
Proof.
  induction ops as [|[u eo] ops IH]; intro e; [reflexivity|].
  unfold final_e, final in *. cbn [fold_left erase_hist fst snd]. rewrite IH, step_refines. reflexivity.
Qed.
Theorem run_refines k os : forall ops e,
  map to_st (run_e k os e ops) = map fst (run k os (to_st e) (erase_hist k os e ops)).
Proof.
  induction ops as [|[u eo] ops IH]; intro e; [reflexivity|].
  cbn [run_e run erase_hist map fst snd]. rewrite IH, step_refines. reflexivity.
Qed.

Theorem objects_history k os ops e :
  to_st (final_e k os e ops) = final k os (to_st e) (erase_hist k os e ops) /\
  map to_st (run_e k os e ops) = map fst (run k os (to_st e) (erase_hist k os e ops)).
Proof. split; [apply final_refines | apply run_refines]. Qed.

(* the stored links after a history of calls on objects: what the finite-set reading of the calls
   (the primary keys of the objects, references resolved) defines *)
Theorem has_history_e k os : is_has k -> forall eops e A,
  wf_has os (to_st e) -> hist_ok k os (to_st e) (erase_hist k os e eops) -> length A = length os ->
  (forall i o, nth_error os i = Some o -> seteq (links k (to_st e) o) (nth i A [])) ->
  let e' := final_e k os e eops in
  wf_has os (to_st e') /\
  (forall i o, nth_error os i = Some o ->
     seteq (links k (to_st e') o) (nth i (spec_run k (erase_hist k os e eops) A) [])).
Proof.
  intros Hk eops e A W OK LA H0 e'. unfold e'. rewrite final_refines.
  exact (has_history k os Hk (erase_hist k os e eops) (to_st e) A W OK LA H0).
Qed.

(* ---------------- the in-memory key of every held element ---------------- *)
Definition keys_ok (os : list Z) (e : est) : Prop :=
  forall i o m, nth_error os i = Some o -> nth_error (e_mem e) i = Some m -> forall x, In x m -> snd x = Some o.

Lemma set_keys_has k o m x : is_has k -> In x (set_keys k o m) -> snd x = Some o.
Proof.
  intros [-> | ->] H; cbn in H; apply in_map_iff in H; destruct H as [y [E _]]; subst x; reflexivity.
Qed.

Lemma save_loop_e_keys k clear : is_has k -> forall os vs ms s i o m,
  nth_error os i = Some o -> nth_error (fst (save_loop_e k clear os vs ms s)) i = Some m ->
  forall x, In x m -> snd x = Some o.
Proof.
  intro Hk. induction os as [|o0 os IH]; intros vs ms s i o m Ho Hm x Hx.
  - destruct i; discriminate.
  - destruct vs as [|v vs]; [destruct i; discriminate|]. destruct ms as [|m0 ms]; [destruct i; discriminate|].
    cbn [save_loop_e] in Hm.
    destruct (save_loop_e k clear os vs ms (save_owner_e k o0 (set_keys k o0 (new_field_e k clear m0 v)) s)) as [rest s2] eqn:ES.
    cbn [fst] in Hm. destruct i as [|i]; cbn in Ho, Hm.
    + inversion Ho; inversion Hm; subst. eapply set_keys_has; eauto.
    + apply (IH vs ms (save_owner_e k o0 (set_keys k o0 (new_field_e k clear m0 v)) s) i o m Ho); [rewrite ES; exact Hm | exact Hx].
Qed.

Lemma save_assoc_e_keys k clear os vs e : is_has k -> keys_ok os (save_assoc_e k clear os vs e).
Proof.
  intros Hk i o m Ho Hm x Hx. unfold save_assoc_e in Hm.
  pose proof (save_loop_e_keys k clear Hk os vs (e_mem e) (to_st e) i o m Ho) as H.
  destruct (save_loop_e k clear os vs (e_mem e) (to_st e)) as [ms s']. cbn [fst] in H. cbn in Hm. exact (H Hm x Hx).
Qed.

Theorem keys_step k os : is_has k -> forall e uo, keys_ok os e -> keys_ok os (assoc_step_e k os e uo).
Proof.
  intros Hk e [u eo] K. destruct eo as [vs|vs|ts| |]; cbn [assoc_step_e].
  - unfold do_append_e. destruct Hk as [-> | ->].
    + unfold do_replace_e. intros i o m Ho Hm. cbn [e_mem with_mem] in Hm.
      exact (save_assoc_e_keys KHasOne true os vs e (or_introl eq_refl) i o m Ho Hm).
    + apply save_assoc_e_keys. right; reflexivity.
  - unfold do_replace_e. intros i o m Ho Hm. cbn [e_mem with_mem] in Hm.
    exact (save_assoc_e_keys k true os vs e Hk i o m Ho Hm).
  - unfold do_delete_e. intros i o m Ho Hm x Hx. cbn [e_mem with_mem] in Hm.
    rewrite nth_error_map in Hm. destruct (nth_error (e_mem e) i) as [m0|] eqn:E0; [|discriminate].
    inversion Hm; subst m. apply filter_In in Hx. exact (K i o m0 Ho E0 x (proj1 Hx)).
  - unfold do_clear_e. intros i o m Ho Hm x Hx. cbn [e_mem with_mem] in Hm.
    rewrite nth_error_map in Hm. destruct (nth_error (e_mem e) i); [|discriminate]. inversion Hm; subst m. destruct Hx.
  - exact K.
Qed.

Theorem keys_history k os : is_has k -> forall ops e, keys_ok os e -> keys_ok os (final_e k os e ops).
Proof.
  intro Hk. induction ops as [|uo ops IH]; intros e K; [exact K|].
  unfold final_e in *. cbn [fold_left]. apply IH, keys_step; assumption.
Qed.

(* ---------------- instances ---------------- *)
(* a record that carries ANOTHER owner's key in memory (loaded while linked to owner 1, or appended to
   owner 1 before) is appended to owner 2: the stored link, Find and the in-memory element all name owner 2 *)
Lemma moved_record :
  let e := mk_est [(11, Some 1); (12, Some 1)] [] [] [[]] in
  let e' := final_e KHasMany [2] e [(false, EAppend [[AObj 11 (Some 1)]])] in
  links KHasMany (to_st e') 2 = [11] /\ links KHasMany (to_st e') 1 = [12] /\
  find_ids KHasMany [2] (to_st e') = [11] /\ e_mem e' = [[(11, Some 2)]].
Proof. vm_compute. repeat split. Qed.

(* Replace with elements of the owner's own field in reversed order: exactly those records stay *)
Lemma replace_by_own_elements :
  let e := mk_est [(10, Some 1); (11, Some 1); (12, Some 1)] [] [] [[(10, Some 1); (11, Some 1); (12, Some 1)]] in
  let e' := final_e KHasMany [1] e [(false, EReplace [[ARef 2; ARef 0]])] in
  links KHasMany (to_st e') 1 = [10; 12] /\ e_mem e' = [[(12, Some 1); (10, Some 1)]] /\
  erase_hist KHasMany [1] e [(false, EReplace [[ARef 2; ARef 0]])] = [(false, OReplace [[12; 10]])].
Proof. vm_compute. repeat split. Qed.
