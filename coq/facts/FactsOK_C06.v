(* FactsOK_C06.v — the facts regenerated from the CURRENT sources equal what the HEAP model of C06
   assumes: the class of every MergeClause body, the slices Statement.clone copies / shares, the
   statement-owned slices chain methods append onto. *)
From Verif Require Import Base C06_Model C06_Ext.
From Gen Require Import Facts.

(* the four slice-carrying MergeClause bodies (probed on the running gorm: merged onto a stored slice with
   spare capacity, the result must live in another backing array) give the model's [md] *)
Lemma md_ok : forall f, md_of_classes merge_classes f = tree_md f.
Proof. intro f. destruct f; vm_compute; reflexivity. Qed.

Lemma from_ok : from_merge_replaces = true.
Proof. vm_compute. reflexivity. Qed.

(* Statement.clone, probed on the running gorm: Joins and scopes are copied, the clause slices and
   Selects/Omits are shared (the model's clone shares exactly these), Clauses is a new map *)
Lemma clone_ok :
  forallb (fun x => existsb (String.eqb x) clone_copied) tree_clone_copied = true
  /\ forallb (fun x => existsb (String.eqb x) clone_shared) tree_clone_shared = true
  /\ existsb (String.eqb "Clauses") clone_fresh_maps = true.
Proof. vm_compute. repeat split; reflexivity. Qed.

(* Session options from a Session-style parent: own statement exactly for Context and SkipHooks *)
Lemma session_clones_ok : session_clones = tree_session_clones.
Proof. vm_compute. reflexivity. Qed.

(* ... which is the guard the non-slice model (C06_Ext) runs with: [tree_guard] on the probed options *)
Definition opt_args : list (string * (bool * option Z * bool)) :=
  [("ctx"%string, (false, Some 0%Z, false)); ("newdb"%string, (true, None, false)); ("newdb+ctx"%string, (true, Some 0%Z, false));
   ("newdb+ctx+skiphooks"%string, (true, Some 0%Z, true)); ("newdb+skiphooks"%string, (true, None, true));
   ("skiphooks"%string, (false, None, true))].
Fixpoint opt_lookup (l : list (string * (bool * option Z * bool))) (n : string) : bool * option Z * bool :=
  match l with
  | [] => (false, None, false)        (* options that do not touch the statement *)
  | (k, v) :: r => if String.eqb k n then v else opt_lookup r n
  end.
Definition opt_guard (n : string) : bool :=
  let '(nd, ctx, skip) := opt_lookup opt_args n in tree_guard nd ctx skip false.
Lemma session_guard_ok : forallb (fun x : string * bool => Bool.eqb (snd x) (opt_guard (fst x))) session_clones = true.
Proof. vm_compute. reflexivity. Qed.

(* Statement.clone gives the new statement a Preloads map of its own (the model's share_pre = false) *)
Lemma preloads_fresh_ok : existsb (String.eqb "Preloads") clone_fresh_maps = true.
Proof. vm_compute. reflexivity. Qed.

(* chain methods (incl. one level of unexported helper methods) append in place only onto statement
   slices the model appends onto, and every in-place append onto a slice that Statement.clone shares
   (Selects) comes after a fresh slice was assigned to that field of the instance *)
Lemma self_appends_ok :
  forallb (fun x => existsb (String.eqb x) tree_self_appends) self_appends = true
  /\ unreset_appends = [].
Proof. vm_compute. split; reflexivity. Qed.

(* chain methods write the instance getInstance returned, never the receiver's statement; DB.Session
   writes tx.Statement.<field> only under options that made it clone the statement first (the model's
   Session{SkipHooks} / WithContext clone, the other options share) *)
Lemma receiver_writes_ok : receiver_writes = [] /\ session_unguarded = [].
Proof. vm_compute. split; reflexivity. Qed.

(* Where.Build swaps a leading single Or on a private copy (the model's h_swap allocates) *)
Lemma where_swap_ok : where_build_swap = MCopy.
Proof. vm_compute. reflexivity. Qed.
