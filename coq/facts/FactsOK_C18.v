(* FactsOK_C18.v — the facts re-extracted from /repo on every run (Facts.v) satisfy the hypotheses of
   the C18 theorems: every driver call site passes the statement's context (or, inside the
   prepared-statement wrappers, the context parameter it received), every internal Session literal
   keeps the context, every executable Statement literal carries it, getInstance / clone / Session
   copy it and nothing else writes a Context field.  A site that starts passing context.Background(),
   or anything the extractor cannot classify (FUnknown), makes these fail. *)
From Verif Require Import Base C18_Model C18_Ops.
From Gen Require Import Facts.
Open Scope string_scope.

Definition str_eqb (a b : string) : bool := if string_dec a b then true else false.

Definition site_ok (s : string * string * bool * cform) : bool :=
  let '(_, _, wrapper, f) := s in
  if wrapper then site_passes_param f || site_passes_stmt_ctx f else site_passes_stmt_ctx f.

(* a Session literal keeps the context at hand, or takes the one an exported function was given by
   its caller (WithContext and the helpers it goes through: the extractor resolves parameters of
   unexported helpers to what their callers pass) *)
Definition session_ok (s : string * string * slit) : bool :=
  let '(_, _, l) := s in
  session_keeps_ctx l || cform_eqb (l_ctx l) FParam.

(* a Statement that can execute (has a ConnPool) carries the context of the statement it is derived
   from; the root statement, reachable from Open only, starts from context.Background() *)
Definition statement_ok (s : string * bool * bool * cform) : bool :=
  let '(_, open_only, pool, f) := s in
  negb pool || cform_eqb f FStmt || (cform_eqb f FBackground && open_only).

Lemma call_sites_pass_stmt_ctx : forallb site_ok c18_call_sites = true.
Proof. vm_compute. reflexivity. Qed.

Lemma internal_sessions_keep_ctx : forallb session_ok c18_sessions = true.
Proof. vm_compute. reflexivity. Qed.

Lemma statements_carry_ctx : forallb statement_ok c18_statements = true.
Proof. vm_compute. reflexivity. Qed.

Lemma copies_in_place : copies_ok c18_copies = true.
Proof. vm_compute. reflexivity. Qed.

Lemma no_other_context_write : c18_other_ctx_writes = [].
Proof. vm_compute. reflexivity. Qed.

(* the only contexts gorm manufactures itself are the ones it hands to its logger and the root
   statement of Open; it never rebinds a handle (no internal WithContext call) *)
Definition fresh_ok (f : string * string * string) : bool :=
  let '(_, call, usage) := f in
  (str_eqb call "context.Background" || str_eqb call "context.TODO")
  && (str_eqb usage "logger" || str_eqb usage "open_root").

Lemma no_manufactured_context : forallb fresh_ok c18_fresh_contexts = true.
Proof. vm_compute. reflexivity. Qed.

Lemma no_internal_rebind : c18_internal_rebinds = [].
Proof. vm_compute. reflexivity. Qed.

(* the roles record over which C18_Ops.op_tree builds the operation trees (the internal Session
   literals by role and the call-site forms by driver method, as they are in the current source)
   satisfies the hypothesis of the operation-tree theorems (c18_ops_ok and the ones after it) *)
Lemma roles_keep_ctx : roles_ok c18_roles = true.
Proof. vm_compute. reflexivity. Qed.

(* the extractor still sees the sites and literals the harness attributes events to *)
Lemma sites_present : (10 <=? length c18_call_sites)%nat && (20 <=? length c18_sessions)%nat = true.
Proof. vm_compute. reflexivity. Qed.
