(* FactsOK_C05.v — the create / update / delete pipelines of the RUNNING gorm (Facts.v is
   regenerated on every run by harness/facts/c05.go, linked against the tree under test: callback
   list by reflection, execution order by probe callbacks) satisfy what the C05 model assumes of
   a pipeline (C05_Model.run_pipe): BeginTransaction runs first, CommitOrRollbackTransaction last,
   both under the same Match and nothing else under a Match; the callbacks are executed in their
   registration order; every callback entry was understood. *)
From Verif Require Import Base.
From Gen Require Import Facts.
Open Scope string_scope.

Definition str_eqb (a b : string) : bool := if string_dec a b then true else false.

Definition bracketed (l : list (string * string)) : bool :=
  match l with
  | (first, m) :: rest =>
    str_eqb first "gorm:begin_transaction" && negb (str_eqb m "")
    && match rev rest with
       | (last, m') :: middle =>
         str_eqb last "gorm:commit_or_rollback_transaction" && str_eqb m' m
         && forallb (fun x => str_eqb (snd x) "") middle
         && negb (existsb (fun x => str_eqb (fst x) "gorm:begin_transaction"
                                    || str_eqb (fst x) "gorm:commit_or_rollback_transaction") middle)
       | [] => false
       end
  | [] => false
  end.

Lemma create_bracketed : bracketed c05_create_order = true.
Proof. vm_compute. reflexivity. Qed.
Lemma update_bracketed : bracketed c05_update_order = true.
Proof. vm_compute. reflexivity. Qed.
Lemma delete_bracketed : bracketed c05_delete_order = true.
Proof. vm_compute. reflexivity. Qed.
Lemma create_executed : list_eqb str_eqb c05_create_executed (map fst c05_create_order) = true.
Proof. vm_compute. reflexivity. Qed.
Lemma update_executed : list_eqb str_eqb c05_update_executed (map fst c05_update_order) = true.
Proof. vm_compute. reflexivity. Qed.
Lemma delete_executed : list_eqb str_eqb c05_delete_executed (map fst c05_delete_order) = true.
Proof. vm_compute. reflexivity. Qed.
Lemma nothing_unknown : c05_unknown = [].
Proof. vm_compute. reflexivity. Qed.
