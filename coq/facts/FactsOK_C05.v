(* FactsOK_C05.v — the registration order of the create / update / delete pipelines, re-extracted
   from /repo's callbacks/callbacks.go on every run (Facts.v), satisfies what the C05 model
   assumes of a pipeline (C05_Model.run_pipe): BeginTransaction runs first,
   CommitOrRollbackTransaction last, both under the same Match and nothing else under a Match;
   every Register statement on these processors was understood. *)
From Verif Require Import Base.
From Gen Require Import Facts.
Open Scope string_scope.

Definition str_eqb (a b : string) : bool := if string_dec a b then true else false.

Definition bracketed (l : list (string * string)) : bool :=
  match l with
  | (first, m) :: rest =>
    str_eqb first "gorm:begin_transaction" && negb (str_eqb m "")
    && match rev rest with
       | (last, m') :: middle =>
         str_eqb last "gorm:commit_or_rollback_transaction" && str_eqb m' m
         && forallb (fun x => str_eqb (snd x) "") middle
         && negb (existsb (fun x => str_eqb (fst x) "gorm:begin_transaction"
                                    || str_eqb (fst x) "gorm:commit_or_rollback_transaction") middle)
       | [] => false
       end
  | [] => false
  end.

Lemma create_bracketed : bracketed c05_create_order = true.
Proof. vm_compute. reflexivity. Qed.
Lemma update_bracketed : bracketed c05_update_order = true.
Proof. vm_compute. reflexivity. Qed.
Lemma delete_bracketed : bracketed c05_delete_order = true.
Proof. vm_compute. reflexivity. Qed.
Lemma nothing_unknown : c05_unknown = [].
Proof. vm_compute. reflexivity. Qed.
