(* FactsOK_C19.v — the facts re-extracted from /repo on every run (Facts.v) satisfy what the C19
   model assumes about the source, stated by what functions DO, not by their names or files:
   (1) every ConnPool.{Exec,Query,QueryRow,Prepare}Context call site of package gorm / package callbacks
       either forwards a call it received (ConnPool implementations) or is dominated by a DryRun test: in
       its own function, or - for an unexported helper that is never used as a value - at every call
       that leads to it (any depth);
   (2) the callbacks still contain driver call sites (non-vacuity);
   (3) inside package callbacks DryRun is read only by functions from which a driver call is
       reachable (the executors), hence by no statement builder; in package gorm only by
       Execute / Session / Save / Row / Rows (by name, whatever file or receiver) or by assignments.
   A site or read the extractor cannot classify is SUnknown / ROther and fails. *)
From Verif Require Import Base C19_Facts.
From Gen Require Import Facts.
Open Scope string_scope.

Lemma every_call_site_guarded :
  forallb (fun s => site_guarded (snd s)) c19_sites = true.
Proof. vm_compute. reflexivity. Qed.

Definition is_wrapper (c : site_class) : bool := match c with SWrapper => true | _ => false end.
Lemma executors_present :
  (8 <=? length (filter (fun s => negb (is_wrapper (snd s))) c19_sites))%nat = true.
Proof. vm_compute. reflexivity. Qed.

Definition gorm_readers : list string := ["Execute"; "Session"; "Save"; "Row"; "Rows"].
Definition is_set (c : read_class) : bool := match c with RSet => true | _ => false end.
Lemma only_executors_read_dryrun :
  forallb (fun r => match r with
                    | (pkg, name, cls, reaches) =>
                      read_ok cls && (is_set cls || reaches || (String.eqb pkg "gorm" && str_in name gorm_readers))
                    end) c19_dry_reads = true.
Proof. vm_compute. reflexivity. Qed.
