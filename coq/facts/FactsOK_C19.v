(* FactsOK_C19.v — the facts re-extracted from /repo on every run (Facts.v) satisfy what the C19
   model assumes about the source: every driver call site of the callbacks is dominated by a DryRun
   test (so that `c_dry = true` really prevents it), the six executors are all there, and nothing
   but the enumerated functions reads DryRun (so that the statement builders cannot depend on it).
   A site the extractor cannot classify is SUnknown, a read it cannot classify is ROther: both make
   these lemmas fail. *)
From Verif Require Import Base C19_Facts.
From Gen Require Import Facts.
Open Scope string_scope.

Lemma every_call_site_guarded :
  forallb (fun s => site_guarded (snd s)) c19_sites = true.
Proof. vm_compute. reflexivity. Qed.

(* the executors the model enumerates each have at least one (guarded) call site *)
Definition executors : list string :=
  ["callbacks/query.go:Query"; "callbacks/create.go:Create"; "callbacks/update.go:Update";
   "callbacks/delete.go:Delete"; "callbacks/raw.go:RawExec"; "callbacks/row.go:RowQuery"].
Lemma executors_present :
  forallb (fun f => existsb (fun s => String.eqb f (fst (fst s))) c19_sites) executors = true.
Proof. vm_compute. reflexivity. Qed.

(* call sites outside the executors and the prepared-statement wrappers: none *)
Lemma no_other_call_site :
  forallb (fun s => str_in (fst (fst s)) executors
                    || match snd s with SWrapper => true | _ => false end) c19_sites = true.
Proof. vm_compute. reflexivity. Qed.

(* who reads DryRun *)
Definition dry_readers : list string :=
  executors ++ ["callbacks.go:processor.Execute"; "gorm.go:DB.Session";
                "finisher_api.go:DB.Save"; "finisher_api.go:DB.Row"; "finisher_api.go:DB.Rows"].
Lemma only_executors_read_dryrun :
  forallb (fun r => read_ok (snd r) && str_in (fst r) dry_readers) c19_dry_reads = true.
Proof. vm_compute. reflexivity. Qed.
