(* FactsOK_C13.v — what the RUNNING gorm of the tree under check does (Facts.v: traced runs of one
   Create / Updates / First / Delete on SQLite, see harness/facts/c13.go) is what the model of C13
   assumes: each pipeline executes its callbacks in the modelled order, each hook callback tries the
   hooks in the modelled order, BEGIN precedes and COMMIT follows everything under the default
   transaction, and with SkipDefaultTransaction the two transaction callbacks (and only they) are absent;
   no callback the model does not know is registered (when the registered names can be reflected). *)
From Verif Require Import Base C13_Model.
From Gen Require Import Facts.
Open Scope string_scope.

Definition str_eqb (a b : string) : bool := if string_dec a b then true else false.

Definition hook_name (h : hook) : string :=
  match h with
  | BeforeSave => "BeforeSave" | BeforeCreate => "BeforeCreate" | AfterCreate => "AfterCreate"
  | AfterSave => "AfterSave" | BeforeUpdate => "BeforeUpdate" | AfterUpdate => "AfterUpdate"
  | BeforeDelete => "BeforeDelete" | AfterDelete => "AfterDelete" | AfterFind => "AfterFind"
  end.

Definition hooks_run (x : cb) : list string :=
  map hook_name
    match x with
    | CbBeforeCreate => fc_hooks PBeforeCreate | CbAfterCreate => fc_hooks PAfterCreate
    | CbBeforeUpdate => fc_hooks PBeforeUpdate | CbAfterUpdate => fc_hooks PAfterUpdate
    | CbBeforeDelete => fc_hooks PBeforeDelete | CbAfterDelete => fc_hooks PAfterDelete
    | CbAfterQuery => fc_hooks PAfterFind
    | _ => []
    end.

Definition expect_run (tx : bool) (p : list cb) : list string :=
  flat_map (fun x => match x with
                     | CbBeginTx => if tx then ["begin"] else []
                     | CbCommitOrRollback => if tx then ["commit"] else []
                     | _ => cb_name x :: hooks_run x
                     end) p.

Definition run_ok (observed : list string) (tx : bool) (p : list cb) : bool :=
  list_eqb str_eqb observed (expect_run tx p).

Lemma create_runs_as_modelled :
  run_ok c13_run_create_default true create_pipeline && run_ok c13_run_create_skipdef false create_pipeline = true.
Proof. vm_compute. reflexivity. Qed.
Lemma update_runs_as_modelled :
  run_ok c13_run_update_default true update_pipeline && run_ok c13_run_update_skipdef false update_pipeline = true.
Proof. vm_compute. reflexivity. Qed.
Lemma delete_runs_as_modelled :
  run_ok c13_run_delete_default true delete_pipeline && run_ok c13_run_delete_skipdef false delete_pipeline = true.
Proof. vm_compute. reflexivity. Qed.
Lemma query_runs_as_modelled :
  run_ok c13_run_query_default false query_pipeline && run_ok c13_run_query_skipdef false query_pipeline = true.
Proof. vm_compute. reflexivity. Qed.

(* registered names = the model's callbacks, as sets *)
Definition subset (a b : list string) : bool := forallb (fun x => existsb (str_eqb x) b) a.
Definition names_ok (observed : list string) (p : list cb) : bool :=
  let m := map cb_name p in
  subset observed m && subset m observed && Nat.eqb (length observed) (length m).

Lemma no_unmodelled_callback :
  negb c13_names_reflected
  || (names_ok c13_names_create create_pipeline && names_ok c13_names_update update_pipeline
      && names_ok c13_names_delete delete_pipeline && names_ok c13_names_query query_pipeline) = true.
Proof. vm_compute. reflexivity. Qed.

Lemma probes_ran : c13_unknown = [].
Proof. vm_compute. reflexivity. Qed.
