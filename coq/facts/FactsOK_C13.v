(* FactsOK_C13.v — the structural facts re-extracted from /repo on every run (Facts.v) satisfy what the
   model of C13 assumes: the four pipelines run in the modelled order (begin_transaction first,
   before-hooks / statement / after-hooks, commit_or_rollback last, the two transaction callbacks and
   only they under Match(enableTransaction)), and every hook callback tries the hook interfaces in the
   modelled order. *)
From Verif Require Import Base C13_Model.
From Gen Require Import Facts.
Open Scope string_scope.

Definition expect (tx_bracket : bool) (p : list cb) : list (string * string * bool) :=
  map (fun x => (cb_name x, cb_func x,
                 match x with CbBeginTx | CbCommitOrRollback => true | _ => false end)) p.

Definition str_eqb (a b : string) : bool := if string_dec a b then true else false.
Definition reg_eqb (a b : string * string * bool) : bool :=
  str_eqb (fst (fst a)) (fst (fst b)) && str_eqb (snd (fst a)) (snd (fst b)) && Bool.eqb (snd a) (snd b).

Lemma create_order_ok : list_eqb reg_eqb c13_create_order (expect true create_pipeline) = true.
Proof. vm_compute. reflexivity. Qed.
Lemma update_order_ok : list_eqb reg_eqb c13_update_order (expect true update_pipeline) = true.
Proof. vm_compute. reflexivity. Qed.
Lemma delete_order_ok : list_eqb reg_eqb c13_delete_order (expect true delete_pipeline) = true.
Proof. vm_compute. reflexivity. Qed.
Lemma query_order_ok : list_eqb reg_eqb c13_query_order (expect false query_pipeline) = true.
Proof. vm_compute. reflexivity. Qed.

Definition hook_name (h : hook) : string :=
  match h with
  | BeforeSave => "BeforeSave" | BeforeCreate => "BeforeCreate" | AfterCreate => "AfterCreate"
  | AfterSave => "AfterSave" | BeforeUpdate => "BeforeUpdate" | AfterUpdate => "AfterUpdate"
  | BeforeDelete => "BeforeDelete" | AfterDelete => "AfterDelete" | AfterFind => "AfterFind"
  end.

Lemma tries_ok :
  list_eqb str_eqb c13_tries_BeforeCreate (map hook_name (fc_hooks PBeforeCreate))
  && list_eqb str_eqb c13_tries_AfterCreate (map hook_name (fc_hooks PAfterCreate))
  && list_eqb str_eqb c13_tries_BeforeUpdate (map hook_name (fc_hooks PBeforeUpdate))
  && list_eqb str_eqb c13_tries_AfterUpdate (map hook_name (fc_hooks PAfterUpdate))
  && list_eqb str_eqb c13_tries_BeforeDelete (map hook_name (fc_hooks PBeforeDelete))
  && list_eqb str_eqb c13_tries_AfterDelete (map hook_name (fc_hooks PAfterDelete))
  && list_eqb str_eqb c13_tries_AfterQuery (map hook_name (fc_hooks PAfterFind)) = true.
Proof. vm_compute. reflexivity. Qed.

Lemma no_unknown_registration_form : c13_unknown = [].
Proof. vm_compute. reflexivity. Qed.
