#!/bin/sh
# Full .vo build of the Coq development (never -vos/-vok). Usage: build.sh [target.vo ...]
# Serialised with flock so that concurrent checks do not race on .vo files.
set -e
cd "$(dirname "$0")"
exec 9>.build.lock
flock 9
{ echo "-R theories Verif"; echo "-arg -w -arg -notation-overridden,-deprecated-hint-without-locality,-deprecated-instance-without-locality"; ls theories/*.v | LC_ALL=C sort; } > _CoqProject.new
if ! cmp -s _CoqProject.new _CoqProject 2>/dev/null; then mv _CoqProject.new _CoqProject; coq_makefile -f _CoqProject -o Makefile >/dev/null; else rm -f _CoqProject.new; fi
[ -f Makefile ] || coq_makefile -f _CoqProject -o Makefile >/dev/null
timeout ${COQ_BUILD_TIMEOUT:-1500} make -j${COQ_JOBS:-16} "$@"
