#!/usr/bin/env python3
"""seed_register.py <prop> <src dir> <seed id> '<json result of seedtest.sh>' '<what it needs to manifest>' '<strengthening note>'"""
import json, os, shutil, sys
prop, src, sid, res, needs, note = sys.argv[1:7]
dst = os.path.join('/verif/seeded', sid)
os.makedirs(dst, exist_ok=True)
for f in ('patch.diff', 'demo_test.go', 'notes.txt'):
    if os.path.exists(os.path.join(src, f)):
        shutil.copy(os.path.join(src, f), os.path.join(dst, f))
r = json.loads(res)
if not needs and os.path.exists(os.path.join(src, 'notes.txt')):
    import re
    txt = open(os.path.join(src, 'notes.txt')).read()
    m = re.search(r'(?im)^.*\b(needs to manifest|what it needs|needs|trigger(s|ed)?( by)?|manifests? (only )?when)\b.*$', txt)
    if m:
        i = m.start()
        needs = ' '.join(txt[i:i + 400].split())
meta = {
    "id": sid, "property": prop,
    "breaks": open(os.path.join(src, 'notes.txt')).read()[:1500] if os.path.exists(os.path.join(src, 'notes.txt')) else "",
    "needs_to_manifest": needs,
    "confirmed_in_scratch_worktree": {k: r[k] for k in ("applies", "builds", "demo_without_patch", "demo_with_patch", "suite_root", "suite_tests")},
    "what_was_run": "seedtest.sh: git worktree of /repo HEAD; demo test copied to tests/ and run without and with patch.diff; go build ./...; go test ./... in the root module and in tests/ (private TMPDIR); VERIF_REPO=<worktree> ./check %s" % prop,
    "check_result": {"caught": r["check_caught"], "no_failing_input_found": r["no_failing_input_found"], "summary": r["check_summary"]},
    "strengthening": note,
}
json.dump(meta, open(os.path.join(dst, 'meta.json'), 'w'), indent=1)
print("registered", dst)
