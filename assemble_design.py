#!/usr/bin/env python3
"""DESIGN.md = design_src/00_head.md + section 8 (design.d/Cxx.md, in order) + design_src/9*.md"""
import glob, os
R = os.path.dirname(os.path.abspath(__file__))
out = [open(os.path.join(R, "design_src", "00_head.md")).read().rstrip() + "\n"]
out.append("\n## 8. Per-property design, as built\n\nOne part per property, written by the builder of that check from what exists in the tree.\nOracle conventions (behaviour that is by design and must not alarm) are those of Appendix B.0,\nas amended in the parts below and in §11.\n")
for i in range(1, 21):
    f = os.path.join(R, "design.d", "C%02d.md" % i)
    if os.path.exists(f):
        out.append("\n" + open(f).read().rstrip() + "\n")
    else:
        out.append("\n### C%02d — as built\n\n(section not written yet; see props.d/C%02d.json)\n" % (i, i))
out.append("\n---------------------------------------------------------------------------\n")
for f in sorted(glob.glob(os.path.join(R, "design_src", "[1-9]*.md"))):
    out.append("\n" + open(f).read().rstrip() + "\n")
open(os.path.join(R, "DESIGN.md"), "w").write("".join(out))
print("DESIGN.md assembled:", sum(x.count("\n") for x in out), "lines")
