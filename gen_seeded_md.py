#!/usr/bin/env python3
"""design_src/91_seeded.md (section 10) from seeded/*/meta.json."""
import glob, json, os
R = os.path.dirname(os.path.abspath(__file__))
metas = [json.load(open(f)) for f in sorted(glob.glob(os.path.join(R, "seeded", "*", "meta.json")))]
out = ["## 10. Seeded changes: which checks catch which\n",
       "Fresh sub-agents were given only the text of one property and their own scratch worktree of",
       "`/repo` (nothing from `/verif`) and asked for small changes to gorm that break the property while",
       "still compiling and passing gorm's unedited suites, each needing something specific to manifest,",
       "with a demonstration test. Each change kept here was confirmed in a fresh scratch worktree by",
       "`seedtest.sh` (patch applies, builds, both suites pass, demonstration passes without / fails with",
       "the patch) and then run against the property's check with `VERIF_REPO=<worktree> ./check Cxx`.",
       "`seeded/<id>/` holds `patch.diff`, the demonstration and `meta.json`. \"initially missed\" means the",
       "first version of the check did not report it; the strengthening that followed is stated.\n",
       "| id | needs, in order to manifest | caught | history |",
       "|---|---|---|---|"]
n_caught = 0
for m in metas:
    c = m["check_result"]["caught"] == "yes" and m["check_result"]["no_failing_input_found"] != "yes"
    n_caught += c
    how = "yes (failing input)" if c else ("yes (broken tie, no failing input)" if m["check_result"]["caught"] == "yes" else "NO")
    out.append("| %s | %s | %s | %s |" % (m["id"], m["needs_to_manifest"].replace("|", "\\|"), how, m["strengthening"].replace("|", "\\|")))
missed_first = sum(1 for m in metas if "MISSED" in m["strengthening"])
out.append("\n%d seeded changes kept; %d are caught with a concrete failing input by the committed checks; %d of them were missed by the first version of a check and led to the strengthenings listed (new generator streams, new read/write paths, new oracles)." % (len(metas), n_caught, missed_first))
open(os.path.join(R, "design_src", "91_seeded.md"), "w").write("\n".join(out) + "\n")
print("91_seeded.md:", len(metas), "seeds,", n_caught, "caught")
