#!/usr/bin/env python3
"""seed_hist_auto.py: fill seed_history.json for seeded changes that have no history note yet, from the
append-only run logs work/seedres_<prop>.jsonl: the FIRST confirmed run of a change is what the check of
that time did with it, the LAST one is what the committed check does.  (Notes written by hand stay.)"""
import glob, json, os, re
H = '/verif/seed_history.json'
hist = json.load(open(H)) if os.path.exists(H) else {}
added = 0
for f in sorted(glob.glob('/verif/work/seedres_C??.jsonl')):
    prop = re.search(r'seedres_(C\d\d)\.jsonl', f).group(1)
    runs = {}
    for l in open(f):
        l = l.strip()
        if not l.startswith('{'):
            continue
        # (a lost newline can glue two records together)
        for part in re.split(r'(?<=\})\s*(?=\{"prop")', l):
            try:
                r = json.loads(part)
            except Exception:
                continue
            runs.setdefault(r['dir'], []).append(r)
    for d, rs in runs.items():
        n = d.rstrip('/').split('/')[-1]
        if not n.isdigit() or int(n) < 10:
            continue   # rounds 1-3 have hand-written notes (seed_history.json / seeded/<id>/meta.json)
        sid = '%s-%s' % (prop, n)
        if sid in hist:
            continue
        conf = [r for r in rs if r.get('applies') == 'yes' and r.get('demo_with_patch') == 'fail']
        if not conf:
            continue
        rnd = (int(n) - 1) // 3 + 1
        first, last = conf[0], conf[-1]
        def verdict(r):
            if r['check_caught'] != 'yes':
                return 'missed'
            return 'noinput' if r['no_failing_input_found'] == 'yes' else 'caught'
        v0, v1 = verdict(first), verdict(last)
        if v0 == 'caught':
            note = 'round %d: caught with a failing input at its first run' % rnd
        elif v0 == 'noinput':
            note = 'round %d: at its first run reported only as a broken tie (no failing input)' % rnd
        else:
            note = 'round %d: MISSED at its first run' % rnd
        if v0 != 'caught':
            if v1 == 'caught':
                note += '; caught with a failing input after the strengthening described in design.d/%s.md ("Seeded changes, round %d")' % (prop, rnd)
            elif v1 == 'noinput':
                note += '; now reported as a broken tie without a failing input'
            else:
                note += '; still missed'
        hist[sid] = note
        added += 1
json.dump(hist, open(H, 'w'), indent=1, sort_keys=True)
print('seed_history.json: %d entries (%d added)' % (len(hist), added))
