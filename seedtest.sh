#!/bin/bash
# seedtest.sh <prop> <dir with patch.diff + demo_test.go> [check-tier]
# Confirms a seeded change in a scratch worktree (builds, existing suites pass, demo fails with /
# passes without) and runs ./check <prop> against it. Prints a JSON summary line.
set -u
P=$1; D=$2; TIER=${3:-quick}
WT=/tmp/seed_wt_$$
export GOFLAGS=-mod=mod GOPROXY=off GOSUMDB=off GOTOOLCHAIN=local TMPDIR=/tmp/seed_tmp_$$
mkdir -p $TMPDIR
git -C /repo worktree add -q $WT HEAD || exit 2
cleanup() { git -C /repo worktree remove --force $WT >/dev/null 2>&1; rm -rf $TMPDIR; }
trap cleanup EXIT
demo_name=$(grep -ho 'func Test[A-Za-z0-9_]*' $D/demo_test.go | head -1 | sed 's/func //')
cp $D/demo_test.go $WT/tests/zz_seed_demo_test.go
RACE=""; [ "$P" = "C07" ] && RACE="-race"
demo_without=$(cd $WT/tests && go test $RACE -vet=off -count=1 -run "^${demo_name}\$" . >/tmp/seed_log_$$ 2>&1 && echo pass || echo fail)
applies=yes; (cd $WT && git apply $D/patch.diff) || applies=no
builds=$(cd $WT && go build ./... >/dev/null 2>&1 && echo yes || echo no)
demo_with=$(cd $WT/tests && go test $RACE -vet=off -count=1 -run "^${demo_name}\$" . >>/tmp/seed_log_$$ 2>&1 && echo pass || echo fail)
rm -f $WT/tests/zz_seed_demo_test.go
suite_root=$(cd $WT && go test -vet=off -count=1 ./... >/dev/null 2>&1 && echo pass || echo fail)
suite_tests=$(cd $WT/tests && go test -vet=off -count=1 ./... >/tmp/seed_suite_$$ 2>&1 && echo pass || echo fail)
if [ $suite_tests = fail ]; then
  # gorm's TestPreparedStmtConcurrentClose is timing-dependent under load: one retry
  suite_tests=$(cd $WT/tests && go test -vet=off -count=1 ./... >/tmp/seed_suite_$$ 2>&1 && echo pass || echo fail)
fi
rm -f /tmp/seed_suite_$$
out=$(cd /verif && VERIF_REPO=$WT VERIF_TIER=$TIER timeout 1500 ./check $P 2>&1 | grep -v "^KNOWN-FINDING" | tail -40)
rc=$?
caught=no; echo "$out" | grep -q "^VIOLATION property=$P" && caught=yes
nofail=no; echo "$out" | grep -q "no-failing-input-found" && nofail=yes
summary=$(echo "$out" | grep "^$P tier" | head -1)
rm -rf /verif/work/${P}__tmp_seed_wt_$$
echo "{\"prop\":\"$P\",\"dir\":\"$D\",\"demo\":\"$demo_name\",\"applies\":\"$applies\",\"builds\":\"$builds\",\"demo_without_patch\":\"$demo_without\",\"demo_with_patch\":\"$demo_with\",\"suite_root\":\"$suite_root\",\"suite_tests\":\"$suite_tests\",\"check_caught\":\"$caught\",\"no_failing_input_found\":\"$nofail\",\"check_summary\":\"$summary\"}"
