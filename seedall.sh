#!/bin/bash
# seedall.sh <prop> : seedtest over /tmp/brk_out_<prop>/{1,2,3,...}; results -> work/seedres_<prop>.jsonl
P=$1; mkdir -p /verif/work; : > /verif/work/seedres_$P.jsonl
for d in /tmp/brk_out_$P/*/; do [ -f $d/patch.diff ] || continue; /verif/seedtest.sh $P ${d%/} | tee -a /verif/work/seedres_$P.jsonl; done
