#!/bin/sh
# MANIFEST.setup_cmd: build the framework offline from files on disk only.
set -e
cd "$(dirname "$0")"
export GOFLAGS=-mod=mod GOPROXY=off GOSUMDB=off GOTOOLCHAIN=local
mkdir -p work evidence
# full .vo build of what the enabled checks need (their Props / Check / extra modules and every
# dependency); modules marked thorough-only in props.d are left to the thorough tier
TARGETS=$(python3 - <<'PY'
import sys
sys.path.insert(0, ".")
from props import PROPS
mods = []
for pid, c in sorted(PROPS.items()):
    mods += c.get("props_mods", ["Props_" + pid]) + [c.get("check_mod", pid + "_Check")] + c.get("extra_mods", [])
print(" ".join("theories/%s.vo" % m for m in dict.fromkeys(mods)))
PY
)
./coq/build.sh $TARGETS
CMDS=$(python3 - <<'PY'
import sys
sys.path.insert(0, ".")
from props import PROPS
print(" ".join("./cmd/%s/..." % c["cmd"] for _, c in sorted(PROPS.items())))
PY
)
cd harness && go build -tags verif ./lib ./recdrv ./gdb ./whr ./facts $CMDS && echo "setup ok"
