#!/bin/sh
# MANIFEST.setup_cmd: build the framework offline from files on disk only.
set -e
cd "$(dirname "$0")"
export GOFLAGS=-mod=mod GOPROXY=off GOSUMDB=off GOTOOLCHAIN=local
mkdir -p work evidence
./coq/build.sh
cd harness && go build -tags verif ./... && echo "setup ok"
