#!/bin/sh
# MANIFEST.setup_cmd: build the framework offline from files on disk only.
set -e
cd "$(dirname "$0")"
export GOFLAGS=-mod=mod GOPROXY=off GOSUMDB=off GOTOOLCHAIN=local
mkdir -p work evidence
# full .vo build of everything except the modules that props.d marks thorough-only
SKIP=$(python3 - <<'PY'
import glob, json
skip = []
for f in glob.glob("props.d/C*.json"):
    skip += json.load(open(f)).get("thorough_props_mods", [])
    skip += json.load(open(f)).get("thorough_only_mods", [])
print(" ".join(skip))
PY
)
TARGETS=""
for f in coq/theories/*.v; do
  m=$(basename "$f" .v); keep=1
  for s in $SKIP; do [ "$m" = "$s" ] && keep=0; done
  [ $keep = 1 ] && TARGETS="$TARGETS theories/$m.vo"
done
./coq/build.sh $TARGETS
cd harness && go build -tags verif ./... && echo "setup ok"
